#!/usr/bin/env python3
# Regenerates MANIFEST.json from the table below (single source of truth for claims).
import json
import os
import subprocess

HERE = os.path.dirname(os.path.dirname(os.path.abspath(__file__)))

A_NOTE = ('Bounded: holds for every weight assignment of the listed topologies only (bounds in evidence). Trusted: z3 4.8.12, the symx '
          'value-type encoding (validated per run by replaying leaf models on the real double/int builds), the TBB scheduler shim, '
          'the oracles in symx/oracle.hpp.')

CHECKS = {
    'C01': dict(cat='model_checking', ref='DESIGN.md §6 C01',
                text='Bounded symbolic model checking of the real templates: all positive-real weight assignments (every tie pattern) of '
                     'each listed topology are covered by forked path conditions; per leaf the emitted basis is checked for count, '
                     'simple-cycle shape, membership in the input graph and GF(2) independence.',
                tech='fork-based symbolic execution of the real C++ templates over z3 (QF_LRA) path conditions'),
    'C02': dict(cat='model_checking', ref='DESIGN.md §6 C02',
                text='Same exploration as C01; per leaf z3 proves ret == sum of emitted cycle weights and single-exchange optimality over '
                     'the whole cycle space (no GF(2) combination containing B_j is lighter than B_j) for every weight assignment on the path.',
                tech='fork-based symbolic execution + z3 optimality queries over the path condition'),
}

NOT_APPLICABLE = {
}

PENDING = 'check not built yet (framework under construction)'


def main():
    old = json.load(open(os.path.join(HERE, 'MANIFEST.json')))
    checks = []
    for pid in sorted(CHECKS):
        c = CHECKS[pid]
        checks.append({
            'property_id': pid,
            'quick_cmd': './check %s --tier quick' % pid,
            'thorough_cmd': './check %s --tier thorough' % pid,
            'evidence_file': 'evidence/%s.json' % pid,
            'replay_cmd_template': './check %s --replay {path}' % pid,
            'engine': c.get('engine', 'symx'),
            'level_claimed': {'category': c['cat'], 'text': c['text'], 'design_ref': c['ref']},
            'level_note': c.get('note', A_NOTE),
            'technique': c['tech'],
        })
    na = []
    for i in range(1, 21):
        pid = 'C%02d' % i
        if pid in CHECKS:
            continue
        na.append({'property_id': pid, 'reason': NOT_APPLICABLE.get(pid, PENDING)})
    try:
        commits = subprocess.run(['git', '-C', '/repo', 'log', '--format=%H %s'], stdout=subprocess.PIPE, text=True).stdout.splitlines()
        hook_commits = [l.split()[0] for l in commits if l.split(' ', 1)[1].startswith('verif-hook:')]
    except Exception:
        hook_commits = old['hooks'].get('source_commits', [])
    m = {
        'version': 1,
        'setup_cmd': './setup.sh',
        'hooks': {
            'guard': 'PARMCB_VERIF',
            'enable': 'every harness is compiled with -DPARMCB_VERIF against /repo/include (lib/vlib.py build())',
            'baseline_off_cmd': './baseline_off.sh',
            'source_commits': hook_commits,
            'add_only': True,
        },
        'engines': [
            {'name': 'symx', 'path': 'symx/', 'serves_properties': sorted(p for p in CHECKS if CHECKS[p].get('engine', 'symx') == 'symx'),
             'kind_free_text': 'fork-based symbolic execution of the real parmcb templates instantiated with z3-backed value types'},
            {'name': 'ir2c', 'path': 'ir2c/', 'serves_properties': sorted(p for p in CHECKS if CHECKS[p].get('engine') == 'ir2c'),
             'kind_free_text': 'clang -O1 LLVM IR of extern-C wrappers -> generated C -> cbmc 6.11 (bounded model checking)'},
        ],
        'checks': checks,
        'not_applicable': na,
        'notes': 'See DESIGN.md. Exit 2 of a check = engine fault (unfinished exploration / solver unknown), never reported as success.',
    }
    json.dump(m, open(os.path.join(HERE, 'MANIFEST.json'), 'w'), indent=1)


if __name__ == '__main__':
    main()
