#!/usr/bin/env python3
# Regenerates MANIFEST.json from the table below (single source of truth for claims).
import json
import os
import subprocess

HERE = os.path.dirname(os.path.dirname(os.path.abspath(__file__)))

A_NOTE = ('Bounded: holds for every weight assignment of the listed small topologies, and for every value of one symbolic weight on the seeded 6-9 vertex slices (DESIGN.md 12.1), only (bounds in evidence). Trusted: z3 4.8.12, the symx '
          'value-type encoding (validated per run by replaying leaf models on the real double/int builds), the TBB scheduler shim, '
          'the oracles in symx/oracle.hpp.')

CHECKS = {
    'C01': dict(cat='model_checking', ref='DESIGN.md §6 C01',
                text='Bounded symbolic model checking of the real templates: all positive-real weight assignments (every tie pattern) of '
                     'each listed topology are covered by forked path conditions; per leaf the emitted basis is checked for count, '
                     'simple-cycle shape, membership in the input graph and GF(2) independence.',
                tech='fork-based symbolic execution of the real C++ templates over z3 (QF_LRA) path conditions'),
    'C02': dict(cat='model_checking', ref='DESIGN.md §6 C02',
                text='Same exploration as C01; per leaf z3 proves ret == sum of emitted cycle weights and single-exchange optimality over '
                     'the whole cycle space (no GF(2) combination containing B_j is lighter than B_j) for every weight assignment on the path.',
                tech='fork-based symbolic execution + z3 optimality queries over the path condition'),
}

CHECKS.update({
    'C05': dict(cat='model_checking', ref='DESIGN.md §6 C05',
                text='Bounded symbolic model checking of approx_mcb_sva_{signed,fvs_trees,iso_trees} for k in {1,2,3} on symbolic weights (std::sort '
                     'comparisons fork, so every scan order among ties is a leaf): after the call has returned, basis validity with descriptor '
                     'membership in the caller\'s graph, and z3 proves ret == weight of the emitted cycles under the caller\'s map.',
                tech='fork-based symbolic execution of the real templates + z3 (QF_LRA) obligations per leaf'),
    'C06': dict(cat='model_checking', ref='DESIGN.md §6 C06',
                text='Same runs as C05; per leaf z3 proves that no invertible GF(2) transform of the emitted basis B satisfies (2k-1)*w(B\') < ret '
                     '(i.e. ret <= (2k-1)*OPT), single-exchange minimality for k=1, and k=0 is rejected with std::runtime_error and emits nothing.',
                tech='fork-based symbolic execution + z3 queries quantifying over all cycle bases as invertible GF(2) matrices'),
    'C08': dict(cat='model_checking', ref='DESIGN.md §6 C08',
                text='Relational bounded model checking: two runs in one path over shared symbolic weights; z3 proves the relation between the two '
                     'returned optima (variant pairs, vertex permutations, insertion orders, isolated/pendant/bridge additions, disjoint union, '
                     'edge subdivision, scaling by powers of two).',
                tech='relational (two-run) symbolic execution of the real templates, z3 equality obligations over the joint path condition'),
    'C12': dict(cat='model_checking', ref='DESIGN.md §6 C12',
                text='SPTree built for every source of the topology in one path on symbolic weights; z3 proves dist(v) = weight of the tree path and '
                     '<= every simple path; concrete per leaf: tree shape, first-vertex labels, reversal and sub-path consistency across all trees.',
                tech='fork-based symbolic execution of lex_dijkstra/SPTree + z3 distance obligations against all simple paths'),
    'C13': dict(cat='exploration', ref='DESIGN.md §6 C13',
                text='Topology-only property: adjacency bits are boolean variables decided through the engine, so every labelled simple graph on n<=6 '
                     '(thorough: also 7 vertices with m<=8 or m>=17) vertices is visited, plus seeded disjoint unions of 2-4 small components (<=16 vertices); on each the emitted set is checked with an independent union-find. '
                     'Exhaustive within the bound; the solver has nothing numeric to decide (degenerate case of the technique).',
                tech='exhaustive enumeration of adjacency bits through the symbolic engine (no numeric solver content)'),
    'C14': dict(cat='model_checking', ref='DESIGN.md §6 C14',
                text='Horton, FVS and isometric collections built on the same symbolic weights in one path; per candidate the harness unfolds the cycle, '
                     'z3 proves recorded weight = true weight; nestedness is concrete; sufficiency is one z3 query per collection: every simple cycle '
                     'lies in the GF(2) span of the candidates that are no heavier.',
                tech='fork-based symbolic execution + z3 span/weight obligations'),
    'C15': dict(cat='model_checking', ref='DESIGN.md §6 C15',
                text='BaseApproxSpannerAlgorithm constructed on symbolic weights (guarded accessors); z3 proves spanner edges carry the input weights and '
                     'each dropped edge has a <=2k-1-edge path of no-heavier retained edges; partition, subgraph and girth>2k are concrete per leaf.',
                tech='fork-based symbolic execution (std::sort forks over all tie orders) + z3 obligations'),
    'C16': dict(cat='exploration', ref='DESIGN.md §6 C16',
                text='Topology-only: every labelled simple graph on n<=6 vertices (thorough: also 7 vertices with m<=8 or m>=17) in up to three insertion orders, plus seeded disjoint unions of small components, on the real adjacency_list; '
                     'bijection/inverse, component count, dimension, forest flag, spanning-forest and copy/assignment checks with an independent union-find. Exhaustive within the bound.',
                tech='exhaustive enumeration of adjacency bits through the symbolic engine (no numeric solver content)'),
    'C17': dict(cat='model_checking', ref='DESIGN.md §6 C17',
                text='SpVecGF2<symx::Int> (unbounded indices): inductive step from arbitrary canonical pre-states (sets of symbolic size <= L) and short '
                     'histories; after every operation z3 proves entries strictly increasing and, for a fresh universally quantified coordinate j, '
                     'j in entries <=> dense XOR model(j); dot products equal the parity of common ones.',
                tech='symbolic execution with integer-sorted indices; z3 (LIA) proves equivalence with a dense model for a universally quantified coordinate'),
    'C18': dict(cat='model_checking', ref='DESIGN.md §6 C18',
                text='fp<T>, primes<T>, SpVecFP<P> instantiated with two\'s-complement bit-vectors: Bezout identity/divisibility in 2W-bit arithmetic, inverse '
                     'correctness/throwing, primality against an exhaustive oracle in the bound, SpVecFP against a dense model mod p with signed-overflow monitors.',
                tech='symbolic execution over bit-vectors (per-query bit-blasting with z3)'),
    'C20': dict(cat='model_checking', ref='DESIGN.md §6 C20', engine='ir2c',
                text='set_global_tbb_concurrency lowered from clang IR to C and checked by CBMC against the global_control life-cycle model: after each of '
                     'up to 3 (thorough 6) calls with arbitrary n the active limit equals n; unwinding assertions on.',
                tech='clang LLVM IR -> C translation checked by CBMC (bounded model checking, kissat/cadical back ends)',
                note='Trusted: the global_control life-cycle model (create/destroy/active_value = min of live limits), ir2c.py (validated per run by a '
                     'differential run against the real function with real libtbb), cbmc. The demos\' --cores handling in main() is outside the claim.'),
})

CHECKS.update({
    'C03': dict(cat='model_checking', ref='DESIGN.md §6 C03',
                text='The six *_tbb entry points compiled against the scheduler shim: every parallel_reduce over a range of length <= lmax evaluates ALL '
                     'schedules (leaf partitions x run groupings x join orders) side by side in one path and z3 proves they agree on found/weight; '
                     'parallel_for chunkings/orders and the continuation among distinct results are symbolic choices (budgeted per path); per leaf the '
                     'C01/C02/C05/C06 obligations. The data-race clause is NOT decided (stated outside the claim).',
                tech='fork-based symbolic execution with a symbolic TBB scheduler shim; z3 agreement + optimality obligations'),
    'C04': dict(cat='model_checking', ref='DESIGN.md §6 C04',
                text='The five MPI entry points compiled against an in-process SPMD simulator (ranks = coroutines, collectives rendezvous, mismatch/missing '
                     'collective = deadlock) for P in {1,2,3} (thorough 1..5), each rank with its own graph copy whose edge address order is same/reversed/'
                     'symbolic; per leaf: every rank returns, ranks != 0 emit nothing, rank 0 satisfies validity, ret == sum and single-exchange minimality. '
                     'Sampled leaf models are re-run on real boost::mpi under mpiexec.',
                tech='fork-based symbolic execution under an SPMD simulator with symbolic per-rank memory layouts; z3 optimality obligations'),
    'C07': dict(cat='model_checking', ref='DESIGN.md §6 C07',
                text='The harnesses of C01-C06, C12-C17 rebuilt with ASan+UBSan (+LeakSanitizer at the end of every path, vector annotations) and explored '
                     'over reduced case sets: the sanitizer is the per-path monitor, the paths are the solver\'s; approximate results are dereferenced '
                     'through the caller\'s map after return. Engine-B units (fp<int>, primes<int>, set_global_tbb_concurrency) get CBMC pointer/bounds/'
                     'signed-overflow/shift checks for all inputs within their bounds.',
                tech='sanitizer-monitored symbolic exploration (symx) + CBMC memory-safety checks of IR-derived C units'),
    'C09': dict(cat='model_checking', ref='DESIGN.md §6 C09',
                text='The sequential exact algorithms instantiated with symx::Rnd, a sound linear over-approximation of binary64 addition (x+y+eps, '
                     '|eps|<=2^-53(x+y), one eps per operand pair): per leaf z3 proves ret within 1e-9 of the exact sum of its cycles and that no basis is '
                     'lighter by more than 1e-9 in exact arithmetic. Abstract counterexamples are only reported after a replay on the real double build '
                     '(property evaluated in exact rational arithmetic); otherwise counted as undecided. mcb_sva_iso_trees is a listed known finding.',
                tech='symbolic execution under an abstract rounding model in QF_LRA; counterexamples concretised on the real double build'),
    'C10': dict(cat='model_checking', ref='DESIGN.md §6 C10, §11.1',
                text='Validators (both tiers): has_loops/has_multiple_edges/has_non_positive_weights on every multigraph on <=3 vertices (loops, multiplicity '
                     '<=2) with weights symbolic reals of any sign; z3 proves true <=> some weight <= 0. Reader (thorough tier only, ~15 min, 8 GB): '
                     'read_dimacs_from_file<RecGraph> lowered from clang IR to C and checked by CBMC on a symbolic file produced by a bounded grammar '
                     '(optional comment lines, p line with N in 1..3, one edge line with symbolic endpoints 0..4, weight absent/1 digit/2 digits/D.D, symbolic '
                     'final newline): vertex count, edge list, weights, error iff undeclared vertex.',
                tech='fork-based symbolic execution + z3 (validators); clang IR -> C -> CBMC with C models of fgets/strlen/sscanf (reader, thorough tier)',
                note='Trusted for the reader: the fgets/strlen/sscanf C models, the array-map and exception-type stubs substituted for std::map / '
                     'std::system_error construction (ir2c/wrap/w_c10.cpp), ir2c.py (differential run against the real reader on 400 seeded files per run). '
                     'CBMC pointer-overflow checks are off for this unit (symbolic execution does not finish with them). The quick tier decides the '
                     'validator clause only.'),
})

NOT_APPLICABLE = {
    'C11': 'process-level behaviour of executables (exit status, stdout/stderr, termination under mpiexec) whose main() goes through '
           'boost::program_options, iostreams, fopen and the MPI runtime: no template parameter reaches main() for symbolic types, the CBMC C++ front end '
           'cannot parse it, and there is no numeric input for a solver to range over; the library calls the demos make are covered by C01-C06/C10/C20',
    'C19': 'compile- and link-time property of generated translation units (header self-containment, ODR): no execution, no input and nothing for a '
           'solver to decide; the deciding tools are the compiler and linker (a different technique family)',
}

PENDING = 'check not built yet (framework under construction)'


def main():
    old = json.load(open(os.path.join(HERE, 'MANIFEST.json')))
    checks = []
    for pid in sorted(CHECKS):
        c = CHECKS[pid]
        checks.append({
            'property_id': pid,
            'quick_cmd': './check %s --tier quick' % pid,
            'thorough_cmd': './check %s --tier thorough' % pid,
            'evidence_file': 'evidence/%s.json' % pid,
            'replay_cmd_template': './check %s --replay {path}' % pid,
            'engine': c.get('engine', 'symx'),
            'level_claimed': {'category': c['cat'], 'text': c['text'], 'design_ref': c['ref']},
            'level_note': c.get('note', A_NOTE),
            'technique': c['tech'],
        })
    na = []
    for i in range(1, 21):
        pid = 'C%02d' % i
        if pid in CHECKS:
            continue
        na.append({'property_id': pid, 'reason': NOT_APPLICABLE.get(pid, PENDING)})
    try:
        commits = subprocess.run(['git', '-C', '/repo', 'log', '--format=%H %s'], stdout=subprocess.PIPE, text=True).stdout.splitlines()
        hook_commits = [l.split()[0] for l in commits if l.split(' ', 1)[1].startswith('verif-hook:')]
    except Exception:
        hook_commits = old['hooks'].get('source_commits', [])
    m = {
        'version': 1,
        'setup_cmd': './setup.sh',
        'hooks': {
            'guard': 'PARMCB_VERIF',
            'enable': 'every harness is compiled with -DPARMCB_VERIF against /repo/include (lib/vlib.py build())',
            'baseline_off_cmd': './baseline_off.sh',
            'source_commits': hook_commits,
            'add_only': True,
        },
        'engines': [
            {'name': 'symx', 'path': 'symx/', 'serves_properties': sorted(p for p in CHECKS if CHECKS[p].get('engine', 'symx') == 'symx'),
             'kind_free_text': 'fork-based symbolic execution of the real parmcb templates instantiated with z3-backed value types'},
            {'name': 'ir2c', 'path': 'ir2c/', 'serves_properties': sorted(p for p in CHECKS if CHECKS[p].get('engine') == 'ir2c'),
             'kind_free_text': 'clang -O1 LLVM IR of extern-C wrappers -> generated C -> cbmc 6.11 (bounded model checking)'},
        ],
        'checks': checks,
        'not_applicable': na,
        'notes': 'See DESIGN.md. Exit 2 of a check = engine fault (unfinished exploration / solver unknown), never reported as success.',
    }
    json.dump(m, open(os.path.join(HERE, 'MANIFEST.json'), 'w'), indent=1)


if __name__ == '__main__':
    main()
