#!/usr/bin/env python3
"""seedtest.py <seed_dir> <name> <props comma separated> [--tier quick]
1. confirms the seeded change in a scratch worktree (tests pass with it, demo fails with it, demo passes without it)
2. applies it to /repo, runs the listed checks, undoes it
3. stores patch.diff, the demonstration and meta.json under /verif/seeded/<name>/"""
import json
import os
import shutil
import subprocess
import sys
import time

VERIF = os.path.dirname(os.path.dirname(os.path.abspath(__file__)))


def sh(cmd, **kw):
    return subprocess.run(cmd, shell=True, stdout=subprocess.PIPE, stderr=subprocess.STDOUT, text=True, **kw)


def finish(seed_dir, name, meta, result, tier, skip_confirm):
    out = os.path.join(VERIF, 'seeded', name)
    os.makedirs(out, exist_ok=True)
    for f in os.listdir(seed_dir):
        if os.path.isfile(os.path.join(seed_dir, f)) and not f.startswith('demo_bin') and os.path.getsize(os.path.join(seed_dir, f)) < 200000 and not os.access(os.path.join(seed_dir, f), os.X_OK) or f == 'run.sh':
            shutil.copy(os.path.join(seed_dir, f), os.path.join(out, f))
    prev = {}
    if os.path.exists(os.path.join(out, 'meta.json')):
        try:
            prev = json.load(open(os.path.join(out, 'meta.json')))
        except Exception:
            prev = {}
    if skip_confirm and prev.get('confirmed_by_me'):
        result['confirmed'] = prev['confirmed_by_me']
    if prev.get('checks_with_patch_applied'):
        hist = prev.get('earlier_runs', [])
        hist.append(prev['checks_with_patch_applied'])
        meta['earlier_runs'] = hist
    meta_out = dict(meta)
    meta_out.update({'breaks_property': meta.get('property'), 'needs_to_manifest': meta.get('needs'),
                     'what_i_ran': 'lib/seedtest.py: scratch worktree confirmation + ./check <props> --tier %s with the patch applied to /repo (undone afterwards)' % tier,
                     'confirmed_by_me': result['confirmed'], 'checks_with_patch_applied': result['checks']})
    json.dump(meta_out, open(os.path.join(out, 'meta.json'), 'w'), indent=1)
    return 0



def main():
    seed_dir, name, props = sys.argv[1], sys.argv[2], sys.argv[3].split(',')
    tier = 'quick'
    if '--tier' in sys.argv:
        tier = sys.argv[sys.argv.index('--tier') + 1]
    skip_confirm = '--skip-confirm' in sys.argv
    patch = os.path.join(seed_dir, 'patch.diff')
    meta = json.load(open(os.path.join(seed_dir, 'meta.json'))) if os.path.exists(os.path.join(seed_dir, 'meta.json')) else {}
    wt = '/tmp/wt_confirm_' + name
    result = {'property': meta.get('property'), 'summary': meta.get('summary'), 'needs': meta.get('needs'), 'agent_verified': meta.get('verified'),
              'confirmed': {}, 'checks': {}}
    if not skip_confirm:
        sh('git -C /repo worktree remove --force %s' % wt)
        r = sh('git -C /repo worktree add -f %s HEAD' % wt)
        try:
            b = sh('cmake -G Ninja -S %s -B %s/_build -DCMAKE_BUILD_TYPE=RelWithDebInfo >/dev/null && cmake --build %s/_build >/dev/null' % (wt, wt, wt))
            clean_demo = sh('sh %s/run.sh %s' % (seed_dir, wt), timeout=900)
            result['confirmed']['demo_passes_on_clean_tree'] = clean_demo.returncode == 0
            a = sh('git -C %s apply %s' % (wt, patch))
            if a.returncode != 0:
                result['confirmed']['patch_applies'] = False
                print('patch does not apply:', a.stdout[-500:])
            else:
                result['confirmed']['patch_applies'] = True
                t = sh('cmake --build %s/_build 2>&1 | tail -3 && ctest --test-dir %s/_build 2>&1 | tail -4' % (wt, wt), timeout=1800)
                result['confirmed']['existing_tests_pass_with_patch'] = '100% tests passed' in t.stdout
                d = sh('sh %s/run.sh %s' % (seed_dir, wt), timeout=900)
                result['confirmed']['demo_fails_with_patch'] = d.returncode != 0
                result['confirmed']['demo_output_tail'] = d.stdout[-400:]
        finally:
            sh('git -C /repo worktree remove --force %s' % wt)
    print(json.dumps(result['confirmed'], indent=1))
    if '--worktree' in sys.argv:
        # same thing on a scratch worktree of /repo's HEAD (PARMCB_REPO points the checks at it); /repo itself stays untouched
        wt2 = '/tmp/wt_check_' + name
        sh('git -C /repo worktree remove --force %s' % wt2)
        sh('git -C /repo worktree add -f %s HEAD' % wt2)
        a = sh('git -C %s apply %s' % (wt2, patch))
        try:
            if a.returncode != 0:
                print('patch does not apply', a.stdout)
                return 2
            for p in props:
                t0 = time.time()
                r = sh('PARMCB_REPO=%s %s/check %s --tier %s' % (wt2, VERIF, p, tier), timeout=7200)
                lines = [l for l in r.stdout.splitlines() if l.startswith(('VIOLATION', 'KNOWN-FINDING', 'OK ', 'ENGINE-FAULT'))]
                result['checks'][p] = {'exit': r.returncode, 'caught': r.returncode == 1, 'wall_s': round(time.time() - t0, 1), 'lines': lines[:6],
                                       'how': 'scratch worktree of /repo HEAD with the patch applied, PARMCB_REPO=' + wt2}
                print(p, 'exit', r.returncode, lines[:3])
        finally:
            sh('git -C /repo worktree remove --force %s' % wt2)
        return finish(seed_dir, name, meta, result, tier, skip_confirm)
    # run the checks against /repo with the patch applied
    st = sh('git -C /repo status --porcelain --untracked-files=no')
    if st.stdout.strip():
        print('refusing: /repo has uncommitted changes:', st.stdout)
        return 2
    a = sh('git -C /repo apply %s' % patch)
    if a.returncode != 0:
        print('patch does not apply to /repo', a.stdout)
        return 2
    try:
        for p in props:
            t0 = time.time()
            r = sh('%s/check %s --tier %s' % (VERIF, p, tier), timeout=7200)
            lines = [l for l in r.stdout.splitlines() if l.startswith(('VIOLATION', 'KNOWN-FINDING', 'OK ', 'ENGINE-FAULT'))]
            result['checks'][p] = {'exit': r.returncode, 'caught': r.returncode == 1, 'wall_s': round(time.time() - t0, 1), 'lines': lines[:6]}
            print(p, 'exit', r.returncode, lines[:3])
    finally:
        sh('git -C /repo checkout -- .')
    return finish(seed_dir, name, meta, result, tier, skip_confirm)


if __name__ == '__main__':
    sys.exit(main())
