# Engine B: extern-C wrapper -> clang -O1 LLVM IR -> ir2c.py -> C -> cbmc.  Regenerated from /repo on every run.
import json
import os
import re
import subprocess
import sys
import time

from vlib import *  # noqa

CLANG_FLAGS = ['-std=c++14', '-O1', '-fno-vectorize', '-fno-slp-vectorize', '-fno-unroll-loops', '-S', '-emit-llvm']
CBMC_FLAGS = ['--unwinding-assertions', '--pointer-overflow-check', '--signed-overflow-check', '--undefined-shift-check',
              '--drop-unused-functions']


def lower_unit(wrapper_rel, roots, tag):
    """wrapper .cpp -> .ll -> .c; returns path of the generated C file"""
    bd = build_dir()
    cfgdir = os.path.join(bd, 'cfg_real')
    gen_config(cfgdir, tbb=True, mpi=True)
    ll = os.path.join(bd, tag + '.ll')
    cfile = os.path.join(bd, tag + '.c')
    if os.path.exists(cfile):
        return cfile
    r = subprocess.run(['clang++-14'] + CLANG_FLAGS + ['-D' + GUARD, '-I' + cfgdir, '-I' + os.path.join(REPO, 'include'),
                        os.path.join(VERIF, wrapper_rel), '-o', ll], stdout=subprocess.PIPE, stderr=subprocess.STDOUT, text=True)
    if r.returncode != 0:
        sys.stderr.write(r.stdout[-3000:])
        raise EngineFault('clang failed on ' + wrapper_rel)
    r = subprocess.run([sys.executable, os.path.join(VERIF, 'ir2c/ir2c.py'), ll, '--roots', ','.join(roots), '-o', cfile + '.tmp'],
                       stdout=subprocess.PIPE, stderr=subprocess.PIPE, text=True)
    if r.returncode != 0:
        sys.stderr.write(r.stderr[-3000:])
        raise EngineFault('ir2c could not translate %s (unit outside the translator\'s scope)' % wrapper_rel)
    os.replace(cfile + '.tmp', cfile)
    return cfile


def cbmc(files, function, unwind, defines=(), backend=('--external-sat-solver', 'kissat'), timeout=600, trace=True, extra=()):
    cmd = ['cbmc'] + list(files) + ['--function', function, '--unwind', str(unwind)] + CBMC_FLAGS + ['-D' + d for d in defines] + \
          list(backend) + list(extra) + (['--trace'] if trace else [])
    t0 = time.time()
    try:
        r = subprocess.run(cmd, stdout=subprocess.PIPE, stderr=subprocess.STDOUT, text=True, timeout=timeout)
    except subprocess.TimeoutExpired:
        raise EngineFault('cbmc timed out after %ds on %s (no verdict)' % (timeout, function))
    out = r.stdout
    res = {'function': function, 'unwind': unwind, 'defines': list(defines), 'backend': ' '.join(backend), 'wall_s': round(time.time() - t0, 2),
           'props': [], 'failed': [], 'trace_inputs': {}}
    for m in re.finditer(r'^\[(.+?)\] (.*?): (SUCCESS|FAILURE)$', out, re.M):
        res['props'].append((m.group(1), m.group(2), m.group(3)))
        if m.group(3) == 'FAILURE':
            res['failed'].append((m.group(1), m.group(2)))
    if 'VERIFICATION SUCCESSFUL' in out:
        res['verdict'] = 'success'
    elif 'VERIFICATION FAILED' in out:
        res['verdict'] = 'failed'
    else:
        sys.stderr.write(out[-3000:])
        raise EngineFault('cbmc gave no verdict on %s (exit %s)' % (function, r.returncode))
    # inputs of the counterexample: assignments to harness locals from nondet
    for m in re.finditer(r'^\s+(\w+)=(-?\d+)\w* \(', out, re.M):
        res['trace_inputs'].setdefault(m.group(1), m.group(2))
    res['raw_tail'] = out[-1500:] if res['verdict'] == 'failed' else ''
    res['raw_full'] = out if (res['verdict'] == 'failed' and trace) else ''
    m = re.search(r'(\d+) variables, (\d+) clauses', out)
    if m:
        res['sat_vars'], res['sat_clauses'] = int(m.group(1)), int(m.group(2))
    return res


def diff_build(gen_c, wrapper_rel, driver_rel, models, tag, libs=()):
    """links the gcc-built generated C + models, the g++-built real wrapper and a C++ differential driver"""
    bd = build_dir()
    out = os.path.join(bd, tag + '.diff')
    if os.path.exists(out):
        return out
    cfgdir = os.path.join(bd, 'cfg_real')
    objs = []
    for i, c in enumerate([gen_c] + [os.path.join(VERIF, m) for m in models]):
        o = os.path.join(bd, '%s.diff.%d.o' % (tag, i))
        r = subprocess.run(['gcc', '-O1', '-w', '-c', c, '-o', o], stdout=subprocess.PIPE, stderr=subprocess.STDOUT, text=True)
        if r.returncode:
            sys.stderr.write(r.stdout[-2000:])
            raise EngineFault('gcc failed on generated unit ' + c)
        objs.append(o)
    r = subprocess.run(['g++', '-std=c++14', '-O1', '-w', '-I' + cfgdir, '-I' + os.path.join(REPO, 'include'), os.path.join(VERIF, wrapper_rel),
                        os.path.join(VERIF, driver_rel)] + objs + ['-o', out] + list(libs), stdout=subprocess.PIPE, stderr=subprocess.STDOUT, text=True)
    if r.returncode:
        sys.stderr.write(r.stdout[-2000:])
        raise EngineFault('link of differential driver failed for ' + tag)
    return out
