#!/usr/bin/env python3
import os
import sys
sys.path.insert(0, os.path.dirname(os.path.abspath(__file__)))
import vlib

SPECS = [
    ('harness/h_exact.cpp', 'symx'), ('harness/h_approx.cpp', 'symx'), ('harness/h_sptree.cpp', 'symx'), ('harness/h_coll.cpp', 'symx'),
    ('harness/h_rel.cpp', 'symx'), ('harness/h_gf2.cpp', 'symx'), ('harness/h_topo.cpp', 'symx'), ('harness/h_valid.cpp', 'symx'),
    ('harness/h_int.cpp', 'symx', 'h_int8', ('-DBVW=8',)), ('harness/h_int.cpp', 'symx', 'h_int12', ('-DBVW=12',)),
    ('harness/h_int.cpp', 'symx', 'h_int16', ('-DBVW=16',)),
    ('replay/r_mcb.cpp', 'real'), ('replay/r_misc.cpp', 'real'), ('replay/r_gf2.cpp', 'real'), ('replay/r_int.cpp', 'real_nolib'),
    ('replay/r_c20.cpp', 'real'), ('harness/h_tbb.cpp', 'symx'), ('harness/h_mpi.cpp', 'symx_mpi'), ('replay/r_mpi.cpp', 'real_mpi'),
    ('harness/h_exact.cpp', 'symx_asan'), ('harness/h_approx.cpp', 'symx_asan'), ('harness/h_sptree.cpp', 'symx_asan'),
    ('harness/h_coll.cpp', 'symx_asan'), ('harness/h_gf2.cpp', 'symx_asan'), ('harness/h_tbb.cpp', 'symx_asan'),
    ('harness/h_valid.cpp', 'symx_asan'), ('harness/h_topo.cpp', 'symx_asan'),
    ('replay/r_mcb.cpp', 'real_asan'), ('replay/r_misc.cpp', 'real_asan'), ('replay/r_gf2.cpp', 'real_asan'),
]

if __name__ == '__main__':
    specs = [s for s in SPECS if os.path.exists(os.path.join(vlib.VERIF, s[0]))]
    vlib.build_many(specs)
    print('prebuilt %d binaries in %s' % (len(specs), vlib.build_dir()))
