#!/usr/bin/env python3
import os
import sys
sys.path.insert(0, os.path.dirname(os.path.abspath(__file__)))
import vlib

SPECS = [
    ('harness/h_exact.cpp', 'symx'),
    ('replay/r_mcb.cpp', 'real'),
]

if __name__ == '__main__':
    specs = [s for s in SPECS if os.path.exists(os.path.join(vlib.VERIF, s[0]))]
    vlib.build_many(specs)
    print('prebuilt %d binaries in %s' % (len(specs), vlib.build_dir()))
