# Shared driver logic for the "cycle basis" family of checks (C01, C02, C03, C04, C05, C06, C08, C09):
# run a symx harness over a list of cases, aggregate obligations, validate the encoding against the real
# build (translation validation), replay counterexamples on the real build, apply known findings.
import json
import os
import sys
import time

from vlib import *  # noqa


def replay_line(rec, weights, wtype='double', algo=None, extra=''):
    a = algo or rec.get('algo')
    s = 'algo=%s n=%s edges=%s weights=%s type=%s' % (a, rec['n'], rec.get('edges', '-') or '-',
                                                       ','.join(str(x) for x in weights), wtype)
    if rec.get('k') not in (None, ''):
        s += ' k=%s' % rec['k']
    if rec.get('order'):
        s += ' order=%s' % rec['order']
    if rec.get('perm'):
        s += ' perm=%s' % rec['perm']
    if rec.get('layout'):
        s += ' layout=%s' % rec['layout']
    return s + extra


def basis_ok(o):
    return (not o.get('crashed')) and o['exception'] == '' and o['N'] == o['dim'] and not o['foreign_edges'] \
        and o['all_simple'] and o['rank'] == o['N']


def c01_violated(o):
    return not basis_ok(o)


def c02_violated(o):
    if o.get('crashed'):
        return True
    return o['exception'] != '' or o['ret'] != o['sum'] or o['sum'] != o['opt']


def approx_bound_violated(o, k):
    if o.get('crashed') or o['exception'] != '':
        return True
    return o['ret'] > (2 * k - 1) * o['opt'] or (k == 1 and o['sum'] != o['opt'])


class Outcome:
    def __init__(self, prop):
        self.prop = prop
        self.violation_lines = []
        self.known_lines = []
        self.fault = None
        self.n_confirmed = 0
        self.n_known = 0
        self.replays = []
        self.unreproduced = []


def concrete_case(rec, weights):
    """case line for the symbolic harness with every weight fixed (integers)"""
    s = 'algo=%s n=%s edges=%s sym=none fixed=%s' % (rec.get('algo'), rec['n'], rec.get('edges', '-') or '-', ','.join(str(x) for x in weights))
    for k in ('k', 'order', 'perm'):
        if rec.get(k) not in (None, ''):
            s += ' %s=%s' % (k, rec[k])
    return s


def confirm_violations(prop, agg, r_mcb, predicate, keyfn, out, max_replays=40, wtypes=('double',), harness=None):
    """Replays every distinct violated leaf (capped) on the real build; confirmed ones become VIOLATION or
    KNOWN-FINDING lines; an unconfirmed counterexample is an engine fault."""
    seen = set()
    todo = []
    for rec, obl in agg.violated:
        model = obl.get('model') or rec.get('model')
        try:
            weights, _ = instance_weights(rec, model)
        except Exception as ex:
            out.fault = 'cannot concretise counterexample model: %s' % ex
            return
        sig = (rec.get('algo'), rec.get('edges'), rec.get('k'), obl['name'])
        if sig in seen and len(todo) >= 8:
            continue
        seen.add(sig)
        todo.append((rec, obl, weights))
        if len(todo) >= max_replays:
            break
    for rec, _ in [(c, None) for c in agg.crashes]:
        model = rec.get('model') or {}
        if not model or not rec.get('edges'):
            out.fault = 'crash without a model in harness: %s' % json.dumps(rec)[:300]
            return
        try:
            weights, _ = instance_weights(rec, model)
        except Exception as ex:
            out.fault = 'cannot concretise crash model: %s' % ex
            return
        todo.append((rec, {'name': prop + ':crash(signal %s)' % rec.get('signal')}, weights))
        if len(todo) >= max_replays + 10:
            break
    unrepro = []
    for idx, (rec, obl, weights) in enumerate(todo):
        confirmed = None
        for wt in wtypes:
            line = replay_line(rec, weights, wt)
            o = run_replayer(r_mcb, [line])[0]
            if predicate(o, rec):
                confirmed = (line, o)
                break
        if confirmed is None:
            # the integer-scaled counterexample did not reproduce: try the model's own (non-integral, exactly representable) values
            try:
                alts = unscaled_weight_vectors(rec, obl.get('model') or rec.get('model'))
            except Exception:
                alts = []
            for wv in alts:
                line = replay_line(rec, wv, 'double')
                o = run_replayer(r_mcb, [line])[0]
                if predicate(o, rec):
                    confirmed = (line, o)
                    break
        replayer_name = 'replay/r_mcb.cpp'
        if confirmed is None and harness is not None and 'crash' not in obl['name']:
            # behaviour that depends on the address order of the edges does not always reproduce in the double build (the allocator trick is
            # best effort for m > 6).  Last resort: the REAL templates once more, on the concrete weights of the counterexample (no symbolic
            # variable left; exact rational constants), inside the harness process whose allocation pattern produced the order.
            cl = concrete_case(rec, weights)
            s2, log2 = run_harness(harness, [cl], prop + '-concrete', timeout=300)
            a2 = Agg([prop + ':'])
            a2.add_log(log2)
            if a2.violated:
                confirmed = (cl, {'violated_obligations': sorted(set(o2['name'] for _, o2 in a2.violated))[:6],
                                  'address_order': a2.violated[0][0].get('layout')})
                replayer_name = 'harness:concrete'
        if confirmed is None:
            # e.g. behaviour that depends on the address order of the edges, which the replay cannot always reproduce
            unrepro.append('%s / %s / weights %s' % (rec.get('case'), obl['name'], weights))
            continue
        line, o = confirmed
        key = keyfn(rec, obl)
        rp = os.path.join(cex_dir(), '%s-replay-%d.json' % (prop, idx))
        with open(rp, 'w') as f:
            json.dump({'property': prop, 'replayer': replayer_name, 'line': line, 'obligation': obl['name'],
                       'key': key, 'observed': o, 'symbolic_case': rec.get('case'), 'model': obl.get('model') or rec.get('model')},
                      f, indent=1)
        kf = finding_matches(prop, key)
        out.replays.append({'key': key, 'line': line, 'obligation': obl['name'], 'known': bool(kf)})
        if kf:
            out.n_known += 1
            msg = 'KNOWN-FINDING: property=%s %s' % (prop, kf['text'])
            if msg not in out.known_lines:
                out.known_lines.append(msg)
        else:
            out.n_confirmed += 1
            out.violation_lines.append('VIOLATION property=%s replay=%s' % (prop, rp))
    out.unreproduced = unrepro
    if unrepro and not (out.n_confirmed or out.n_known):
        out.fault = 'no counterexample reproduced on the real build (%d tried), first: %s' % (len(unrepro), unrepro[0])


def real_violation(out, prop, line, o, key, why='the real build violates the property on a leaf model (found by translation validation)'):
    """a replay on the real build that violates the property is a confirmed violation, however it was found"""
    rp = os.path.join(cex_dir(), '%s-replay-tv-%d.json' % (prop, len(out.replays)))
    with open(rp, 'w') as f:
        json.dump({'property': prop, 'replayer': 'replay/r_mcb.cpp', 'line': line, 'key': key, 'observed': o, 'note': why}, f, indent=1)
    kf = finding_matches(prop, key)
    out.replays.append({'key': key, 'line': line, 'obligation': 'real-build replay of a leaf model', 'known': bool(kf)})
    if kf:
        out.n_known += 1
        msg = 'KNOWN-FINDING: property=%s %s' % (prop, kf['text'])
        if msg not in out.known_lines:
            out.known_lines.append(msg)
    else:
        out.n_confirmed += 1
        if len(out.violation_lines) < 10:
            out.violation_lines.append('VIOLATION property=%s replay=%s' % (prop, rp))


def translation_validate(agg_leaves, r_mcb, tier, seed, with_int=True, cap=None, out=None, prop=None, violated=None):
    """Push sampled leaf models through the REAL build (double and int) and compare the quantities the input
    determines uniquely with what the symbolic leaf predicted.  Returns (#validated, mismatch or None).
    A real run that violates the property itself (predicate `violated`) is reported as a violation, not as a mismatch."""
    r = rng(seed)
    leaves = list(agg_leaves)
    r.shuffle(leaves)
    cap = cap or (48 if tier == 'quick' else 3000)
    leaves = leaves[:cap]
    lines, meta = [], []
    for rec in leaves:
        try:
            weights, den = instance_weights(rec, rec['model'])
        except Exception:
            continue
        if max(weights + [0]) > 2 ** 40:
            continue
        for wt in (('double', 'int', 'dyadic') if with_int else ('double',)):
            if wt == 'int' and sum(weights) * 4 > 2 ** 30:
                continue
            if wt == 'dyadic':
                # the same weights divided by 8: non-integral but exactly representable doubles (property domain: dyadic doubles)
                lines.append(replay_line(rec, [w / 8.0 for w in weights], 'double'))
                meta.append((rec, fractions.Fraction(den, 8), wt))
                continue
            lines.append(replay_line(rec, weights, wt))
            meta.append((rec, den, wt))
    outs = run_replayer_batch(r_mcb, lines)
    n = 0
    for (rec, den, wt), o, line in zip(meta, outs, lines):
        if violated is not None and out is not None and violated(o, rec):
            real_violation(out, prop, line, o, 'mcb_sva_%s/%s' % (rec.get('algo'), rec.get('edges')))
            continue
        if o.get('crashed'):
            return n, 'real build crashed on leaf model %s (%s)' % (rec.get('case'), wt)
        exp_ret = parse_q(rec['ret']) * den
        if o['N'] != int(rec['N']) or fractions.Fraction(o['ret']) != exp_ret:
            return n, 'real %s build disagrees with symbolic leaf: case=%s model=%s predicted N=%s ret=%s got N=%s ret=%s' % (
                wt, rec.get('case'), rec.get('model'), rec['N'], exp_ret, o['N'], o['ret'])
        n += 1
    return n, None


def finish(prop, tier, seed, level, agg, out, coverage_extra, assumptions, t0, nvalid):
    cov = {
        'states': agg.leaves,
        'transitions': agg.forks,
        'traces_validated_against_impl': nvalid,
        'samples': agg.samples[:5] or [{'note': 'no leaf sampled'}],
        'cases': agg.cases,
        'queries': agg.queries,
        'solver_s': round(agg.solver_s, 2),
        'max_path_depth': agg.maxdepth,
        'obligations_by_name': {k: {'checked': v[0], 'discharged': v[1]} for k, v in sorted(agg.obl.items())},
        'decided_syntactically': agg.syntactic,
        'decided_from_cache': agg.cache_hits,
        'witness_twin_hits': agg.witness_hits,
        'crashes': len(agg.crashes),
        'replays': out.replays[:20],
        'known_findings_hit': out.n_known,
        'counterexamples_not_reproduced_on_real_build': len(getattr(out, 'unreproduced', [])),
        'exhaustive': False,
    }
    cov.update(coverage_extra)
    if prop in ('C01', 'C02', 'C03', 'C04', 'C05', 'C06', 'C07', 'C08', 'C12', 'C14', 'C15'):
        cov.setdefault('wide_slices', 'in addition to the bounds above: seeded (VERIF_SEED) connected graphs on 6..8 (approx/spanner: 6..9) vertices with '
                       'n+3..n+6 edges and dense ones on 6..7 vertices (m >= 2n), ONE symbolic weight (spanner: two) against a concrete background - each '
                       'case is decided for every value of that weight only; counts per check in DESIGN.md 12.1; the graphs are listed in the harness log')
        cov.setdefault('narrowing_conversions_explored', getattr(agg, 'narrowings', 0))
    write_evidence(prop, tier, seed, level, cov, time.time() - t0, out.n_confirmed, assumptions)
    for l in out.known_lines:
        print(l)
    if out.fault:
        print('ENGINE-FAULT property=%s %s' % (prop, out.fault))
        return EXIT_FAULT
    for l in out.violation_lines:
        print(l)
    if out.violation_lines:
        return EXIT_VIOLATION
    total = sum(v[0] for v in agg.obl.values())
    print('OK property=%s tier=%s leaves=%d obligations=%d queries=%d solver_s=%.1f wall_s=%.1f' % (
        prop, tier, agg.leaves, total, agg.queries, agg.solver_s, time.time() - t0))
    return EXIT_OK
