# ./check <ID> --replay <file>: re-run a recorded counterexample against the real build of the current tree.
import json
import sys

from vlib import *  # noqa
import mcbcheck


def replay(prop, path):
    d = json.load(open(path))
    if d.get('replayer') == 'replay/r_mcb.cpp':
        r_mcb = build('replay/r_mcb.cpp', 'real')
        o = run_replayer(r_mcb, [d['line']])[0]
        print(json.dumps(o))
        case = parse_case(d['line'])
        k = int(case.get('k', '1'))
        if prop in ('C01', 'C05', 'C03', 'C04'):
            bad = mcbcheck.c01_violated(o)
        elif prop == 'C02':
            bad = mcbcheck.c02_violated(o)
        elif prop == 'C06':
            bad = mcbcheck.approx_bound_violated(o, k)
        else:
            bad = mcbcheck.c01_violated(o) or mcbcheck.c02_violated(o)
        if bad:
            print('VIOLATION property=%s replay=%s' % (prop, path))
            return 1
        print('replay: property holds on this input now')
        return 0
    print('unknown replay file format')
    return 2
