# ./check <ID> --replay <file>: re-run a recorded counterexample against the real build of the current tree.
import json
import sys

from vlib import *  # noqa
import mcbcheck


def replay(prop, path):
    d = json.load(open(path))
    if d.get('replayer') == 'replay/r_mcb.cpp':
        r_mcb = build('replay/r_mcb.cpp', 'real')
        o = run_replayer(r_mcb, [d['line']])[0]
        print(json.dumps(o))
        case = parse_case(d['line'])
        k = int(case.get('k', '1'))
        if prop in ('C01', 'C05', 'C03', 'C04'):
            bad = mcbcheck.c01_violated(o)
        elif prop == 'C02':
            bad = mcbcheck.c02_violated(o)
        elif prop == 'C06':
            bad = mcbcheck.approx_bound_violated(o, k)
        else:
            bad = mcbcheck.c01_violated(o) or mcbcheck.c02_violated(o)
        if bad:
            print('VIOLATION property=%s replay=%s' % (prop, path))
            return 1
        print('replay: property holds on this input now')
        return 0
    if d.get('replayer') == 'harness:concrete':
        # the real templates on the recorded concrete weights inside the symbolic harness (address-order dependent counterexamples)
        hsrc = 'harness/h_approx.cpp' if (d['line'].startswith('algo=approx') or d['line'].startswith('algo=spanner')) else 'harness/h_exact.cpp'
        h = build(hsrc, 'symx')
        s2, log2 = run_harness(h, [d['line']], prop + '-replay', timeout=300)
        a2 = Agg([prop + ':'])
        a2.add_log(log2)
        print(json.dumps({'violated': [o['name'] for _, o in a2.violated][:6]}))
        if a2.violated:
            print('VIOLATION property=%s replay=%s' % (prop, path))
            return 1
        print('replay: property holds on this input now')
        return 0
    print('unknown replay file format')
    return 2
