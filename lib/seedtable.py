#!/usr/bin/env python3
# prints a markdown table of /verif/seeded/*/meta.json
import glob, json, os
rows = []
for p in sorted(glob.glob(os.path.join(os.path.dirname(os.path.dirname(os.path.abspath(__file__))), 'seeded', '*', 'meta.json'))):
    m = json.load(open(p))
    name = os.path.basename(os.path.dirname(p))
    checks = m.get('checks_with_patch_applied', {})
    caught = [k for k, v in checks.items() if v.get('caught')]
    missed = [k for k, v in checks.items() if not v.get('caught')]
    summ = (m.get('summary') or '').replace('\n', ' ').replace('|', '/')
    rows.append('| %s | %s | %s | %s | %s |' % (name, m.get('property'), summ[:230], ', '.join(caught) or '—',
                                            ', '.join('%s (exit %s)' % (k, checks[k]['exit']) for k in missed) or '—'))
print('| seed | breaks | change | caught by (exit 1) | not caught by |')
print('|---|---|---|---|---|')
print('\n'.join(rows))
