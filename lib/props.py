# Per-property checks.  Each function returns the process exit status (0 ok, 1 violation, 2 engine fault).
import json
import os
import re
import subprocess
import sys
import time

from vlib import *  # noqa
from mcbcheck import *  # noqa

ASSUME_A = [
    'engine A (symx): real parmcb templates instantiated with a z3-backed weight type; exploration by fork at every '
    'solver-feasible comparison outcome; a leaf is one path condition (PC) over the symbolic weights',
    'weights are positive reals (exact arithmetic): stands for double/int weights whose sums are exactly representable; '
    'numeric_limits<W>::max() is a symbolic INF with INF > 4*sum(w)+1',
    'topologies are enumerated (not symbolic): the verdict ranges over every weight assignment of each listed topology',
    'TBB is replaced by the scheduler shim (shim/tbb) in its default one-chunk schedule unless stated otherwise',
    'trusted: z3 4.8.12 (QF_LRA + booleans), matroid single-exchange optimality criterion, the oracles in symx/oracle.hpp',
]


def slice_cases(algo, name, nsym, seed, variants=1, extra=''):
    n, es = family(name)
    es = norm_edges(es)
    m = len(es)
    out = []
    r = rng(shash((seed, name, nsym, algo)) & 0xffffffff)
    for v in range(variants):
        symidx = sorted(r.sample(range(m), min(nsym, m)))
        fixed = [1] * m if v == 0 else [r.choice([1, 1, 2, 3]) for _ in range(m)]
        out.append('algo=%s n=%d edges=%s sym=%s fixed=%s fam=%s%s' % (
            algo, n, edges_str(es), ','.join(map(str, symidx)) if symidx else 'none', ','.join(map(str, fixed)), name, extra))
    return out


def small_graphs(max_n=3):
    out = []
    for n in range(0, max_n + 1):
        for g in all_labelled_graphs(n):
            out.append((n, g))
    return out


def random_slices(algo, seed, count, nsym, extra='', nmin=6, nmax=7, wmax=20):
    """seeded random connected graphs on 6..7 vertices with n+3..n+6 edges, `nsym` symbolic weights, the rest fixed in 1..wmax:
    each case covers ALL values of its symbolic weights against a concrete background (reaches graph shapes the exhaustive part cannot)"""
    r = rng(shash((seed, algo, 'rs', nsym)) & 0xffffffff)
    out = []
    while len(out) < count:
        n = r.choice(list(range(nmin, nmax + 1)))
        m = min(r.randint(n + 3, n + 6), n * (n - 1) // 2)
        es = sorted(r.sample(all_pairs(n), m))
        if components(n, es) != 1:
            continue
        symidx = sorted(r.sample(range(m), nsym))
        fixed = [r.randint(1, wmax) for _ in range(m)]
        out.append('algo=%s n=%d edges=%s sym=%s fixed=%s fam=random%s' % (algo, n, edges_str(es), ','.join(map(str, symidx)), ','.join(map(str, fixed)), extra))
    return out


def dense_slices(algo, seed, count, nsym=2, extra='', ns=(5, 6)):
    """seeded dense graphs on 5..6 vertices (m >= 2n, so that a support vector can reach >= n signed edges and the per-vertex branch of the
    signed searches runs) with bimodal fixed weights (light 1..9, heavy 40..80)"""
    r = rng(shash((seed, algo, 'dense', nsym) + (() if tuple(ns) == (5, 6) else tuple(ns))))
    out = []
    while len(out) < count:
        n = r.choice(list(ns))
        m = min(r.randint(2 * n, 2 * n + 2), n * (n - 1) // 2)
        es = sorted(r.sample(all_pairs(n), m))
        if components(n, es) != 1:
            continue
        symidx = sorted(r.sample(range(m), nsym))
        fixed = [r.randint(1, 9) if r.random() < 0.6 else r.randint(40, 80) for _ in range(m)]
        out.append('algo=%s n=%d edges=%s sym=%s fixed=%s fam=dense%s' % (algo, n, edges_str(es), ','.join(map(str, symidx)), ','.join(map(str, fixed)), extra))
    return out


def exact_cases(tier, seed, algos=('signed', 'fvs', 'iso')):
    cases = []
    g4 = [(4, g) for g in all_labelled_graphs(4)]
    base = small_graphs(3) + g4
    for algo in algos:
        for n, g in base:
            m = len(g)
            full_ok = True
            if tier == 'quick':
                if m == 6:
                    full_ok = False
                if algo == 'iso' and m >= 5:
                    full_ok = False
            else:
                if algo == 'iso' and m == 6:
                    full_ok = False
            if full_ok:
                cases.append('algo=%s n=%d edges=%s sym=all' % (algo, n, edges_str(g)))
            else:
                r = rng(shash((seed, algo, tuple(g))) & 0xffffffff)
                ks = [3] if tier == 'quick' else [3, 4]
                for k in ks:
                    symidx = sorted(r.sample(range(m), k))
                    fixed = [r.choice([1, 1, 2]) for _ in range(m)]
                    cases.append('algo=%s n=%d edges=%s sym=%s fixed=%s' % (
                        algo, n, edges_str(g), ','.join(map(str, symidx)), ','.join(map(str, fixed))))
        fams = ['K33', 'Q3', 'grid3x3', 'K5', 'two_triangles_bridge', 'tri_plus_tri', 'k4_pendant', 'C5']
        for f in fams:
            cases += slice_cases(algo, f, 2, seed, variants=1 if tier == 'quick' else 2)
        if tier == 'quick':
            # every 5-vertex graph (one labelling + a seeded relabelling) with exactly 5 edges and a cycle: C5, C4+pendant, triangle+tails, ...
            for g in iso_classes(5, max_m=5, min_m=5):
                if dim(5, g) >= 1:
                    r5 = rng(shash((seed, algo, tuple(g), 'q5')) & 0xffffffff)
                    perm = list(range(5))
                    r5.shuffle(perm)
                    cases.append('algo=%s n=5 edges=%s sym=all' % (algo, edges_str(g)))
                    cases.append('algo=%s n=5 edges=%s sym=all perm=%s' % (algo, edges_str(g), ','.join(map(str, perm))))
        if tier == 'quick':
            cases += random_slices(algo, seed, 6, 2)
        if algo == 'signed':
            cases += dense_slices(algo, seed, 4 if tier == 'quick' else 10, 2)
        # wide and shallow: many seeded graphs on 6..8 vertices, ONE symbolic weight each (every value and every tie of that weight against a
        # concrete background; ~25 leaves per case) - reaches graph shapes and phases the fully symbolic small cases cannot
        wide_n = (400 if algo == 'signed' else 150) * (1 if tier == 'quick' else 4)
        cases += random_slices(algo, seed, wide_n, 1, nmin=6, nmax=8)
        cases += dense_slices(algo, seed, 30 if tier == 'quick' else 120, 1, ns=(6, 7))
        # a forest and an edgeless graph with several components
        cases.append('algo=%s n=5 edges=0-1,1-2,1-3,3-4 sym=all' % algo)
        cases.append('algo=%s n=5 edges=0-1,2-3 sym=all' % algo)
        if tier == 'thorough':
            # every 5-vertex graph (one labelling + a seeded relabelling/insertion order) with 5 edges fully symbolic, with 6..7 edges as 3-symbolic slices
            for g in iso_classes(5, max_m=7, min_m=5):
                m = len(g)
                if dim(5, g) < 1:
                    continue
                r = rng(shash((seed, algo, tuple(g), 5)) & 0xffffffff)
                perm = list(range(5))
                r.shuffle(perm)
                order = list(range(m))
                r.shuffle(order)
                if m <= 5:
                    cases.append('algo=%s n=5 edges=%s sym=all' % (algo, edges_str(g)))
                    cases.append('algo=%s n=5 edges=%s sym=all perm=%s order=%s' % (
                        algo, edges_str(g), ','.join(map(str, perm)), ','.join(map(str, order))))
                else:
                    symidx = sorted(r.sample(range(m), 3))
                    fixed = [r.choice([1, 1, 2, 3]) for _ in range(m)]
                    cases.append('algo=%s n=5 edges=%s sym=%s fixed=%s' % (algo, edges_str(g), ','.join(map(str, symidx)), ','.join(map(str, fixed))))
            for f in ['K33', 'Q3', 'grid3x3', 'K5', 'K6', 'petersen', 'grid3x4', 'wheel5', 'prism', 'theta2_2_3']:
                cases += slice_cases(algo, f, 3 if algo != 'iso' else 2, seed, variants=2)
            cases += random_slices(algo, seed, 16 if algo != 'iso' else 8, 2)
            if algo == 'signed':
                cases += random_slices(algo, seed, 6, 3)
    if tier == 'thorough':
        # second, independent optimality formulation (no invertible GF(2) transform of the basis is lighter) on the 4-vertex cases
        cases = [c + ' matrix=1' if (' n=4 ' in c and 'sym=all' in c) else c for c in cases]
    return cases


def _exact_predicate(prop):
    def pred(o, rec):
        return c01_violated(o) if prop == 'C01' else c02_violated(o)
    return pred


def check_exact(prop, tier, seed):
    t0 = time.time()
    h, r_mcb = build_many([('harness/h_exact.cpp', 'symx'), ('replay/r_mcb.cpp', 'real')])
    cases = exact_cases(tier, seed)
    budget = 600 if tier == 'quick' else 3300
    agg = Agg([prop + ':'])
    out = Outcome(prop)
    # witness twin: the final assert(false) must be reported violated (assumptions satisfiable, assertion reached)
    wcases = [c for c in cases if 'n=4' in c and 'sym=all' in c][:9]
    ws, _ = run_harness(h, wcases, prop + '-witness', timeout=300, witness=True)
    if ws.get('witness_hits', 0) <= 0:
        out.fault = 'witness twin was not violated: assumptions unsatisfiable or assertion unreachable'
    leaves_for_tv = []

    def keep(rec):
        if rec.get('obl'):
            return  # leaves with a violated obligation go to the counterexample replay, not to translation validation
        if 'ret' in rec and (rec['path'] % 5 == 0 or rec['depth'] == 0):
            if len(leaves_for_tv) < 60000:
                leaves_for_tv.append(rec)
    s, log = run_harness(h, cases, prop + '-' + tier, timeout=budget)
    agg.add_summary(s)
    agg.witness_hits = ws.get('witness_hits', 0)
    agg.add_log(log, keep)
    if agg.leaves == 0 or not agg.obl:
        out.fault = 'no leaf reached an obligation of ' + prop
    nvalid = 0
    if not out.fault:
        nvalid, mism = translation_validate(leaves_for_tv, r_mcb, tier, seed, out=out, prop=prop, violated=_exact_predicate(prop))
        if mism:
            out.fault = 'translation validation: ' + mism
    if not out.fault:
        confirm_violations(prop, agg, r_mcb, _exact_predicate(prop),
                           lambda rec, obl: 'mcb_sva_%s/%s' % (rec.get('algo'), rec.get('edges')), out,
                           wtypes=('double', 'int'), harness=h)
    bounds = {
        'functions_encoded': ['parmcb::mcb_sva_signed', 'parmcb::mcb_sva_fvs_trees', 'parmcb::mcb_sva_iso_trees',
                              '(and everything they instantiate: ForestIndex, SpVecGF2, bidirectional_signed_dijkstra, SPTree, '
                              'lex_dijkstra, greedy_fvs, FVS/ISOCyclesBuilder, ShortestOddCycleLookup)'],
        'bounds': ('quick: every labelled simple graph on <=4 vertices except K4 with ALL weights symbolic (iso: m<=4), '
                   'K4 and iso m=5 as 3-symbolic slices, 2-symbolic slices of K33,Q3,grid3x3,K5 and multi-component graphs; '
                   'thorough: K4 fully symbolic (iso: 3/4-symbolic), one labelling + a seeded relabelling/insertion order of every '
                   '5-vertex graph with 5<=m<=6 fully symbolic (iso m<=5), m=7 4-symbolic, 3/4-symbolic slices up to K6, Petersen, 3x4 grid'),
        'outside_bounds': 'graphs with more than 5 vertices other than the named slices; more than 6 simultaneously symbolic weights; '
                          'weights whose sums are not exactly representable (see C09)',
        'int_and_double': 'symx::Real covers both; the type-specific compile paths are covered by the translation-validation replays '
                          'on the real double and int builds',
    }
    return finish(prop, tier, seed, 'model_checking', agg, out, bounds, ASSUME_A, t0, nvalid)


def C01(tier, seed):
    return check_exact('C01', tier, seed)


def C02(tier, seed):
    return check_exact('C02', tier, seed)


# ----------------------------------------------------------------------------- C05 / C06 / C15
def approx_cases(tier, seed, algos=('approx_signed', 'approx_fvs', 'approx_iso'), ks=(0, 1, 2, 3)):
    cases = []
    g4 = [(4, g) for g in all_labelled_graphs(4)]
    base = [(n, g) for n, g in small_graphs(3)] + g4
    maxfull = 5
    for algo in algos:
        for k in ks:
            for n, g in base:
                m = len(g)
                if k == 0 and not (m in (0, 3) or (n, m) == (4, 5)):
                    continue  # k=0 is rejected before anything depends on the graph: a few shapes suffice
                if tier == 'quick' and n == 4 and m < 3 and k > 1:
                    continue
                if m <= maxfull:
                    cases.append('algo=%s k=%d n=%d edges=%s sym=all' % (algo, k, n, edges_str(g)))
                else:
                    r = rng(shash((seed, algo, k, tuple(g))) & 0xffffffff)
                    symidx = sorted(r.sample(range(m), 3 if tier == 'quick' else 4))
                    cases.append('algo=%s k=%d n=%d edges=%s sym=%s' % (algo, k, n, edges_str(g), ','.join(map(str, symidx))))
            if k == 0:
                continue
            # girth-5 and chorded-cycle shapes: the k=2 spanner keeps cycles, so the exact phase really runs
            fams = [('C5', 5), ('theta2_2_3', 3), ('petersen', 2), ('K33', 2), ('grid3x3', 2), ('two_triangles_bridge', 3)]
            if tier == 'thorough':
                fams += [('Q3', 2), ('K5', 3), ('prism', 3), ('C6', 4), ('wheel5', 3)]
            for f, ns in fams:
                cases += slice_cases(algo, f, ns, seed, variants=1 if tier == 'quick' else 2, extra=' k=%d' % k)
            # C5 plus one chord, C6 plus a long chord
            cases.append('algo=%s k=%d n=5 edges=0-1,1-2,2-3,3-4,0-4,0-2 sym=%s' % (algo, k, '0,1,2,5' if tier == 'thorough' else '0,2,5'))
            cases.append('algo=%s k=%d n=6 edges=0-1,1-2,2-3,3-4,4-5,0-5,0-3 sym=%s' % (algo, k, '0,3,6' if tier == 'quick' else '0,1,3,6'))
            # wide and shallow: seeded graphs on 6..9 vertices with one symbolic weight
            cases += random_slices(algo, seed + k, 60 if tier == 'quick' else 250, 1, nmin=6, nmax=9, extra=' k=%d' % k)
            cases += dense_slices(algo, seed + k, 15 if tier == 'quick' else 60, 1, extra=' k=%d' % k, ns=(6, 7))
    return cases


def spanner_cases(tier, seed):
    cases = []
    for k in (1, 2, 3):
        for n, g in small_graphs(3) + [(4, g) for g in all_labelled_graphs(4)]:
            cases.append('algo=spanner k=%d n=%d edges=%s sym=all' % (k, n, edges_str(g)))
        fams = [('C5', 5), ('petersen', 2), ('K33', 3), ('grid3x3', 3), ('K5', 4)]
        if tier == 'thorough':
            fams += [('petersen', 4), ('Q3', 4), ('K6', 4), ('grid3x4', 4), ('wheel5', 5), ('prism', 5)]
        for f, ns in fams:
            cases += slice_cases('spanner', f, ns, seed, variants=1 if tier == 'quick' else 2, extra=' k=%d' % k)
        # long cycles with one chord: the chord closes cycles of exactly 2k and 2k+1 edges for suitable k (hop-bound boundary of the BFS)
        for nn in (6, 7, 8):
            for kk in range(2, nn // 2 + 1):
                nv, es = family('cyc%dc%d' % (nn, kk))
                m = len(es)
                r = rng(shash((seed, 'cyc', nn, kk, k)) & 0xffffffff)
                for v in range(2 if tier == 'quick' else 4):
                    symidx = sorted(set([m - 1] + r.sample(range(m - 1), 2)))   # the chord and two cycle edges are symbolic
                    fixed = [r.randint(1, 9) for _ in range(m)]
                    order = list(range(m))
                    if v % 2:
                        r.shuffle(order)
                    cases.append('algo=spanner k=%d n=%d edges=%s sym=%s fixed=%s order=%s fam=cyc%dc%d' % (
                        k, nv, edges_str(norm_edges(es)), ','.join(map(str, symidx)), ','.join(map(str, fixed)), ','.join(map(str, order)), nn, kk))
        if tier == 'thorough':
            for g in iso_classes(5, max_m=7, min_m=4):
                cases.append('algo=spanner k=%d n=5 edges=%s sym=all' % (k, edges_str(g)))
        # wide and shallow: seeded graphs on 6..9 vertices, two symbolic weights
        cases += random_slices('spanner', seed + k, 40 if tier == 'quick' else 200, 2, nmin=6, nmax=9, extra=' k=%d' % k)
        cases += dense_slices('spanner', seed + k, 10 if tier == 'quick' else 50, 2, extra=' k=%d' % k, ns=(6, 7))
    return cases


def check_approx(prop, tier, seed):
    t0 = time.time()
    h, r_mcb = build_many([('harness/h_approx.cpp', 'symx'), ('replay/r_mcb.cpp', 'real')])
    if prop == 'C15':
        cases = spanner_cases(tier, seed)
    else:
        cases = approx_cases(tier, seed)
    budget = 900 if tier == 'quick' else 3300
    agg = Agg([prop + ':'])
    out = Outcome(prop)
    wcases = [c for c in cases if 'n=4' in c and 'sym=all' in c and 'k=0' not in c][-9:]
    ws, _ = run_harness(h, wcases, prop + '-witness', timeout=300, witness=True)
    if ws.get('witness_hits', 0) <= 0:
        out.fault = 'witness twin was not violated: assumptions unsatisfiable or assertion unreachable'
    leaves_for_tv = []

    def keep(rec):
        if rec.get('obl'):
            return  # leaves with a violated obligation go to the counterexample replay, not to translation validation
        if 'ret' in rec and (rec['path'] % 5 == 0 or rec['depth'] == 0) and len(leaves_for_tv) < 60000:
            leaves_for_tv.append(rec)
        if 'retained_set' in rec and (rec['path'] % 3 == 0 or rec['depth'] == 0) and len(leaves_sp) < 60000:
            leaves_sp.append(rec)
    leaves_sp = []
    s, log = run_harness(h, cases, prop + '-' + tier, timeout=budget)
    agg.add_summary(s)
    agg.witness_hits = ws.get('witness_hits', 0)
    agg.add_log(log, keep)
    if agg.leaves == 0 or not agg.obl:
        out.fault = 'no leaf reached an obligation of ' + prop
    nvalid = 0
    if not out.fault and prop != 'C15':
        # the approximate result is not unique (pointer/tie order); validate N only and the property itself on the real build
        r = rng(seed)
        r.shuffle(leaves_for_tv)
        lines, meta = [], []
        for rec in leaves_for_tv[:(48 if tier == 'quick' else 2000)]:
            weights, den = instance_weights(rec, rec['model'])
            if max(weights + [0]) > 2 ** 40:
                continue
            lines.append(replay_line(rec, weights, 'double'))
            meta.append(rec)
            lines.append(replay_line(rec, [w / 8.0 for w in weights], 'double'))
            meta.append(rec)
        for rec, o, line in zip(meta, run_replayer_batch(r_mcb, lines), lines):
            k = int(rec['k'])
            c05bad = c01_violated(o) or (not o.get('crashed') and o['ret'] != o['sum'])
            c06bad = (not c05bad) and (approx_bound_violated(o, k) if k else False)
            if (prop == 'C05' and c05bad) or (prop == 'C06' and (c06bad or c05bad)):
                real_violation(out, prop, line, o, '%s/k=%s/%s' % (rec.get('algo'), rec.get('k'), rec.get('edges')))
                continue
            if o.get('crashed') or o['N'] != int(rec['N']):
                out.fault = 'translation validation: real double build disagrees with symbolic leaf %s: %s' % (rec.get('case'), json.dumps(o)[:300])
                break
            nvalid += 1
    if not out.fault and prop == 'C15':
        # translation validation of the spanner: the real double build (guarded accessors) must retain exactly the same edges
        r_misc = build('replay/r_misc.cpp', 'real')
        r = rng(seed)
        r.shuffle(leaves_sp)
        lines, meta = [], []
        for rec in leaves_sp[:(48 if tier == 'quick' else 1500)]:
            weights, den = instance_weights(rec, rec['model'])
            if max(weights + [0]) > 2 ** 40:
                continue
            lines.append('what=spanner k=%s n=%s edges=%s weights=%s%s' % (rec['k'], rec['n'], rec['edges'], ','.join(map(str, weights)),
                                                                           (' order=' + rec['order']) if rec.get('order') else ''))
            meta.append(rec)
        for rec, o, line in zip(meta, run_replayer_batch(r_misc, lines), lines):
            if o.get('crashed'):
                out.fault = 'translation validation: real spanner construction crashed on %s' % line
                break
            if not (o['weights_ok'] and o['endpoints_ok'] and o['girth_ok'] and o['stretch_ok'] and o['partition_ok']):
                real_violation(out, prop, line, o, 'spanner/k=%s/%s' % (rec['k'], rec['edges']), 'the real spanner violates C15 on a leaf model')
                continue
            if o['retained'] != sorted(rec['retained_set']):
                out.fault = 'translation validation: real spanner keeps %s, symbolic leaf predicted %s (%s)' % (o['retained'], rec['retained_set'], line)
                break
            nvalid += 1
    if not out.fault:
        if prop == 'C15':
            if agg.violated or agg.crashes:
                # the spanner is internal state: a counterexample is replayed by re-running the same harness on the
                # concrete weights of the model (all-fixed case), which must violate the same obligation again
                redo = []
                for rec, obl in agg.violated[:20]:
                    weights, _ = instance_weights(rec, obl.get('model') or rec['model'])
                    redo.append('algo=spanner k=%s n=%s edges=%s sym=none fixed=%s' % (rec['k'], rec['n'], rec['edges'], ','.join(map(str, weights))))
                s2, log2 = run_harness(h, redo, prop + '-confirm', timeout=300)
                a2 = Agg([prop + ':'])
                a2.add_log(log2)
                if len(a2.violated) == 0 and not agg.crashes:
                    out.fault = 'C15 counterexample did not reproduce on concrete weights'
                else:
                    for i, (rec, obl) in enumerate(a2.violated[:10]):
                        rp = os.path.join(cex_dir(), 'C15-replay-%d.json' % i)
                        json.dump({'property': 'C15', 'replayer': 'harness/h_approx.cpp (concrete weights)', 'line': rec['case'],
                                   'obligation': obl['name']}, open(rp, 'w'), indent=1)
                        key = 'spanner/k=%s/%s' % (rec['k'], rec['edges'])
                        kf = finding_matches(prop, key)
                        if kf:
                            out.n_known += 1
                            out.known_lines.append('KNOWN-FINDING: property=%s %s' % (prop, kf['text']))
                        else:
                            out.n_confirmed += 1
                            out.violation_lines.append('VIOLATION property=%s replay=%s' % (prop, rp))
                    if agg.crashes and not a2.violated:
                        out.fault = 'crash inside spanner construction: %s' % json.dumps(agg.crashes[0])[:300]
        else:
            def pred(o, rec):
                k = int(rec['k'])
                if prop == 'C05':
                    return c01_violated(o) or o['ret'] != o['sum']
                if k == 0:
                    return o.get('crashed') or o['exception'] == '' or o['N'] != 0
                return approx_bound_violated(o, k)
            confirm_violations(prop, agg, r_mcb, pred,
                               lambda rec, obl: '%s/k=%s/%s' % (rec.get('algo'), rec.get('k'), rec.get('edges')), out, harness=h)
    bounds = {
        'functions_encoded': ['parmcb::approx_mcb_sva_signed', 'parmcb::approx_mcb_sva_fvs_trees', 'parmcb::approx_mcb_sva_iso_trees',
                              'parmcb::detail::BaseApproxSpannerAlgorithm (construct_spanner, run)', 'parmcb::is_bfs_reachable',
                              'parmcb::dijkstra', 'NonSpannerEdgesCycleBuilder', 'std::sort with symbolic comparisons'],
        'bounds': ('k in {0,1,2,3} (for n<=5, 2k-1 >= n-1 from k=3 on); every labelled simple graph on <=4 vertices with m<=5 '
                   'fully symbolic, heavier ones as 3-symbolic slices; C5, chorded C5/C6, theta graphs, Petersen, K33, 3x3 grid as 2..6-symbolic slices'),
        'outside_bounds': 'k whose 2k-1 overflows size_t; graphs beyond the listed ones; the *_tbb approximate entry points (C03)',
    }
    return finish(prop, tier, seed, 'model_checking', agg, out, bounds, ASSUME_A, t0, nvalid)


def C05(tier, seed):
    return check_approx('C05', tier, seed)


def C06(tier, seed):
    return check_approx('C06', tier, seed)


def C15(tier, seed):
    return check_approx('C15', tier, seed)


# ----------------------------------------------------------------------------- generic engine-A check runner
def run_symx_check(prop, tier, seed, harness_src, cases, budget, tv, confirm, bounds, kind='symx', replayer='replay/r_misc.cpp',
                   witness_pick=None, assumptions=None, level='model_checking', keep_every=5, extra_cov=None, prefixes=None, on_leaf=None):
    """tv(leaves, replayer_bin) -> (nvalid, mismatch|None);  confirm(agg, replayer_bin, out) fills out."""
    t0 = time.time()
    h, rbin = build_many([(harness_src, kind), (replayer, 'real')])
    agg = Agg(prefixes or [prop + ':'])
    out = Outcome(prop)
    wcases = (witness_pick(cases) if witness_pick else cases[-6:])
    ws, _ = run_harness(h, wcases, prop + '-witness', timeout=300, witness=True)
    if ws.get('witness_hits', 0) <= 0:
        out.fault = 'witness twin was not violated: assumptions unsatisfiable or assertion unreachable'
    leaves = []

    def keep(rec):
        if on_leaf:
            on_leaf(rec)
        if rec.get('obl'):
            return  # leaves with a violated obligation go to the counterexample replay, not to translation validation
        if (rec['path'] % keep_every == 0 or rec['depth'] == 0) and len(leaves) < 60000:
            leaves.append(rec)
    s, log = run_harness(h, cases, prop + '-' + tier, timeout=budget)
    agg.add_summary(s)
    agg.witness_hits = ws.get('witness_hits', 0)
    agg.add_log(log, keep)
    if agg.leaves == 0 or not agg.obl:
        out.fault = 'no leaf reached an obligation of ' + prop
    nvalid = 0
    if not out.fault and tv:
        r = rng(seed)
        r.shuffle(leaves)
        nvalid, mism = tv(leaves[:(48 if tier == 'quick' else 2500)], rbin)
        if isinstance(mism, dict):
            # the real build violates the property itself on a leaf model: a replay-confirmed violation
            real_violation(out, prop, mism['line'], mism['observed'], mism['key'], 'real build (%s) violates the property on a leaf model' % replayer)
        elif mism:
            out.fault = 'translation validation: ' + mism
    if not out.fault and (agg.violated or agg.crashes):
        confirm(agg, rbin, out)
    cov = dict(bounds)
    if extra_cov:
        cov.update(extra_cov(agg))
    return finish(prop, tier, seed, level, agg, out, cov, assumptions or ASSUME_A, t0, nvalid)


def generic_confirm(prop, line_of, violated_pred, keyfn, replayer_name):
    """Replay each violated leaf (model → concrete weights) with a concrete replayer; confirmed → VIOLATION."""
    def confirm(agg, rbin, out):
        items = [(rec, obl) for rec, obl in agg.violated[:30]]
        for rec in agg.crashes[:10]:
            if rec.get('model') and rec.get('edges') is not None:
                items.append((rec, {'name': prop + ':crash(signal %s)' % rec.get('signal')}))
            else:
                out.fault = 'crash without model: %s' % json.dumps(rec)[:300]
                return
        for idx, (rec, obl) in enumerate(items):
            model = obl.get('model') or rec.get('model')
            weights, _ = instance_weights(rec, model)
            line = line_of(rec, weights)
            o = run_replayer(rbin, [line])[0]
            if not (o.get('crashed') or violated_pred(o, rec, obl)):
                out.fault = 'counterexample did not reproduce on the real build: %s / %s / %s -> %s' % (
                    rec.get('case'), obl['name'], line, json.dumps(o)[:300])
                return
            key = keyfn(rec, obl)
            rp = os.path.join(cex_dir(), '%s-replay-%d.json' % (prop, idx))
            json.dump({'property': prop, 'replayer': replayer_name, 'line': line, 'obligation': obl['name'], 'key': key, 'observed': o},
                      open(rp, 'w'), indent=1)
            kf = finding_matches(prop, key)
            out.replays.append({'key': key, 'line': line, 'obligation': obl['name'], 'known': bool(kf)})
            if kf:
                out.n_known += 1
                msg = 'KNOWN-FINDING: property=%s %s' % (prop, kf['text'])
                if msg not in out.known_lines:
                    out.known_lines.append(msg)
            else:
                out.n_confirmed += 1
                out.violation_lines.append('VIOLATION property=%s replay=%s' % (prop, rp))
    return confirm


def topo_cases(tier, seed, prefix='', full_max_quick=5, full_max_thorough=6, fams_quick=(), fams_thorough=(), g5=True, g5_max=6,
               extra='', g5_full=5, wide=40):
    cases = []
    for n, g in small_graphs(3) + [(4, g) for g in all_labelled_graphs(4)]:
        m = len(g)
        lim = full_max_quick if tier == 'quick' else full_max_thorough
        if m <= lim:
            cases.append('%sn=%d edges=%s sym=all%s' % (prefix, n, edges_str(g), extra))
        else:
            r = rng(shash((seed, prefix, tuple(g))) & 0xffffffff)
            for k in ((3,) if tier == 'quick' else (3, 4)):
                symidx = sorted(r.sample(range(m), k))
                cases.append('%sn=%d edges=%s sym=%s%s' % (prefix, n, edges_str(g), ','.join(map(str, symidx)), extra))
    for f, ns in (fams_quick if tier == 'quick' else fams_thorough):
        n, es = family(f)
        es = norm_edges(es)
        r = rng(shash((seed, prefix, f, ns)) & 0xffffffff)
        symidx = sorted(r.sample(range(len(es)), ns)) if ns else []
        cases.append('%sn=%d edges=%s sym=%s fam=%s%s' % (prefix, n, edges_str(es), ','.join(map(str, symidx)) if symidx else 'none', f, extra))
    if tier == 'quick' and g5:
        for g in iso_classes(5, max_m=5, min_m=5):
            if dim(5, g) >= 1:
                r = rng(shash((seed, prefix, tuple(g), 'q')) & 0xffffffff)
                order = list(range(len(g)))
                r.shuffle(order)
                cases.append('%sn=5 edges=%s sym=all%s' % (prefix, edges_str(g), extra))
                cases.append('%sn=5 edges=%s sym=all order=%s%s' % (prefix, edges_str(g), ','.join(map(str, order)), extra))
    if tier == 'thorough' and g5:
        for g in iso_classes(5, max_m=g5_max, min_m=4):
            r = rng(shash((seed, prefix, tuple(g), 'o')) & 0xffffffff)
            order = list(range(len(g)))
            r.shuffle(order)
            if len(g) <= g5_full:
                cases.append('%sn=5 edges=%s sym=all%s' % (prefix, edges_str(g), extra))
                cases.append('%sn=5 edges=%s sym=all order=%s%s' % (prefix, edges_str(g), ','.join(map(str, order)), extra))
            else:
                symidx = ','.join(map(str, sorted(r.sample(range(len(g)), 3))))
                cases.append('%sn=5 edges=%s sym=%s%s' % (prefix, edges_str(g), symidx, extra))
                cases.append('%sn=5 edges=%s sym=%s order=%s%s' % (prefix, edges_str(g), symidx, ','.join(map(str, order)), extra))
    # wide and shallow: seeded graphs on 6..8 vertices (and dense ones on 6..7), one symbolic weight against a concrete background
    for c in random_slices('X', seed, wide if tier == 'quick' else 4 * wide, 1, nmin=6, nmax=8) + \
            dense_slices('X', seed, wide // 4 if tier == 'quick' else wide, 1, ns=(6, 7)):
        cases.append(prefix + c.split(' ', 1)[1] + extra)
    return cases


# ----------------------------------------------------------------------------- C12
def C12(tier, seed):
    fq = [('K33', 0), ('Q3', 0), ('grid3x3', 0), ('K33', 2), ('grid3x3', 2), ('Q3', 1), ('K5', 2)]
    ft = fq + [('grid3x4', 0), ('grid3x4', 2), ('K33', 3), ('Q3', 3), ('grid3x3', 3), ('petersen', 0), ('petersen', 2), ('K6', 2),
               ('wheel5', 3), ('prism', 3)]
    cases = topo_cases(tier, seed, full_max_quick=5, full_max_thorough=6, fams_quick=fq, fams_thorough=ft, g5_max=6)

    def tv(leaves, rbin):
        lines, meta = [], []
        for rec in leaves:
            weights, den = instance_weights(rec, rec['model'])
            if max(weights + [0]) > 2 ** 40:
                continue
            lines.append('what=sptree n=%s edges=%s weights=%s%s' % (rec['n'], rec['edges'], ','.join(map(str, weights)),
                                                                     (' order=' + rec['order']) if rec.get('order') else ''))
            meta.append((rec, den))
        n = 0
        for (rec, den), o in zip(meta, run_replayer_batch(rbin, lines)):
            if o.get('crashed'):
                return n, 'real build crashed on %s' % rec['case']
            exp = [[(str(parse_q(x) * den) if x != '-' else '-') for x in row] for row in rec['dist']]
            got = [[(str(fractions.Fraction(x)) if x != '-' else '-') for x in row] for row in o['dist']]
            if not (o['exact'] and o['tree_ok'] and o['first_ok'] and o['rev_ok'] and o['sub_ok']):
                return n, {'line': 'what=sptree n=%s edges=%s weights=%s' % (rec['n'], rec['edges'], ','.join(map(str, instance_weights(rec, rec['model'])[0]))),
                           'observed': o, 'key': 'sptree/%s' % rec['edges']}
            if exp != got:
                return n, 'distances differ on %s model %s: symbolic %s real %s' % (rec['case'], rec['model'], exp, got)
            n += 1
        return n, None

    confirm = generic_confirm('C12', lambda rec, w: 'what=sptree n=%s edges=%s weights=%s%s' % (rec['n'], rec['edges'], ','.join(map(str, w)), (' order=' + rec['order']) if rec.get('order') else ''),
                              lambda o, rec, obl: not (o.get('exact', False) and o.get('tree_ok') and o.get('first_ok') and o.get('rev_ok') and o.get('sub_ok')),
                              lambda rec, obl: 'sptree/%s' % rec['edges'], 'replay/r_misc.cpp')
    bounds = {
        'functions_encoded': ['parmcb::lex_dijkstra', 'LexDistanceCompare/Combine', 'parmcb::SPTree (initialize, compute_first_in_path)'],
        'bounds': 'trees rooted at EVERY vertex in one path; quick: all labelled graphs on <=4 vertices with m<=5 fully symbolic, K4 3-symbolic, '
                  'all-ties (unit weight) K33, Q3, 3x3 grid plus 1..2-symbolic tie-breaking slices; thorough: K4 fully symbolic, every 5-vertex '
                  'graph (one labelling + seeded insertion order) with 4<=m<=5 fully symbolic and m=6 as 3-symbolic slices, 3x4 grid, Petersen, K6 slices',
        'outside_bounds': 'graphs beyond those listed; floating-point rounding (C09)',
    }
    return run_symx_check('C12', tier, seed, 'harness/h_sptree.cpp', cases, 900 if tier == 'quick' else 3300, tv, confirm, bounds,
                          witness_pick=lambda cs: [c for c in cs if c.startswith('n=4') and 'sym=all' in c][-6:])


# ----------------------------------------------------------------------------- C14
def C14(tier, seed):
    fq = [('K33', 2), ('Q3', 2), ('grid3x3', 2), ('K5', 2), ('two_triangles_bridge', 3), ('tri_plus_tri', 3), ('K33', 0), ('grid3x3', 0)]
    ft = fq + [('K33', 3), ('Q3', 3), ('grid3x3', 3), ('K5', 3), ('petersen', 2), ('petersen', 0), ('Q3', 0), ('K6', 2), ('wheel5', 3),
               ('prism', 3), ('grid3x4', 2), ('theta2_2_3', 4)]
    cases = topo_cases(tier, seed, full_max_quick=4, full_max_thorough=5, fams_quick=fq, fams_thorough=ft, g5_max=5, wide=16)

    def tv(leaves, rbin):
        lines, meta = [], []
        for rec in leaves:
            weights, den = instance_weights(rec, rec['model'])
            if max(weights + [0]) > 2 ** 40:
                continue
            lines.append('what=coll n=%s edges=%s weights=%s%s' % (rec['n'], rec['edges'], ','.join(map(str, weights)),
                                                                   (' order=' + rec['order']) if rec.get('order') else ''))
            meta.append(rec)
        n = 0
        for rec, o in zip(meta, run_replayer_batch(rbin, lines)):
            if o.get('crashed'):
                return n, 'real build crashed on %s' % rec['case']
            for nm in ('horton', 'fvs', 'iso'):
                if ('n_' + nm) in rec and int(rec['n_' + nm]) != o['n_' + nm]:
                    return n, '%s candidate count differs on %s model %s: symbolic %s real %s' % (nm, rec['case'], rec['model'], rec['n_' + nm], o['n_' + nm])
            n += 1
        return n, None

    def bad(o, rec, obl):
        for nm in ('horton', 'fvs', 'iso'):
            if not o['sound_' + nm] or not o['weights_' + nm] or o['greedy_dim_' + nm] != o['dim'] or o['greedy_weight_' + nm] != o['opt']:
                return True
        return not o['nested_fvs'] or not o['nested_iso']
    confirm = generic_confirm('C14', lambda rec, w: 'what=coll n=%s edges=%s weights=%s' % (rec['n'], rec['edges'], ','.join(map(str, w))),
                              bad, lambda rec, obl: 'coll/%s/%s' % (obl['name'].split(':')[1], rec['edges']), 'replay/r_misc.cpp')
    bounds = {
        'functions_encoded': ['parmcb::detail::HortonCyclesBuilder', 'FVSCyclesBuilder', 'ISOCyclesBuilder', 'SPTree::create_candidate_cycles',
                              'greedy_fvs', 'lex_dijkstra'],
        'bounds': 'all three collections on the same symbolic weights in one path; quick: all labelled graphs on <=4 vertices with m<=4 fully '
                  'symbolic, heavier 3-symbolic; 0/2/3-symbolic slices of K33, Q3, 3x3 grid, K5, two-component graphs; thorough: m<=5 fully '
                  'symbolic, 5-vertex graphs with 4<=m<=5, Petersen, K6, 3x4 grid slices',
        'outside_bounds': 'graphs beyond those listed',
    }
    return run_symx_check('C14', tier, seed, 'harness/h_coll.cpp', cases, 900 if tier == 'quick' else 3300, tv, confirm, bounds,
                          witness_pick=lambda cs: [c for c in cs if c.startswith('n=4') and 'sym=all' in c][-6:])


# ----------------------------------------------------------------------------- C08
def _eval_form(s, model):
    tot = fractions.Fraction(0)
    for term in s.split('+'):
        term = term.strip()
        if not term:
            continue
        if '*' in term:
            c, v = term.split('*')
            tot += fractions.Fraction(c) * parse_q(model[v])
        else:
            tot += fractions.Fraction(term)
    return tot


def _side_lines(rec, model):
    """r_mcb lines (and the common scale) for sides A, B (and H) of a relational case under `model`."""
    sides = [('A', rec['algoA']), ('B', rec['algoB'])] + ([('H', rec['algoA'])] if 'H' in rec else [])
    vals = {}
    den = 1
    for nm, _ in sides:
        vals[nm] = [_eval_form(s, model) for s in rec[nm]['w']]
        for v in vals[nm]:
            den = den * v.denominator // math.gcd(den, v.denominator)
    lines = {}
    for nm, algo in sides:
        ws = [int(v * den) for v in vals[nm]]
        ln = 'algo=%s n=%s edges=%s weights=%s type=double' % (algo, rec[nm]['n'], rec[nm]['edges'], ','.join(map(str, ws)))
        if nm == 'B' and rec.get('orderB'):
            ln += ' order=' + rec['orderB']
        lines[nm] = ln
    return lines, den


def rel_cases(tier, seed):
    """Every case keeps the number of simultaneously symbolic weights within a budget (signed/fvs 5 quick, 6 thorough; iso 4 / 5)."""
    cases = []
    seqs = ['signed', 'fvs', 'iso']
    graphs = []
    if tier == 'quick':
        for g in iso_classes(4):
            if dim(4, g) >= 1:
                graphs.append((4, g))
    else:
        for g in all_labelled_graphs(4):
            if dim(4, g) >= 1:
                graphs.append((4, g))
    graphs += [(4, [(0, 1), (1, 2), (2, 3)]), (4, [(0, 1), (2, 3)]), (3, [(0, 1), (0, 2), (1, 2)]), (4, []), (0, [])]
    r = rng(seed)

    def budget(algo, m=0):
        b = (4 if m <= 4 else 3) + (1 if tier == 'thorough' else 0)
        if 'iso' in algo:
            b -= 1
        return b

    for n, g in graphs:
        m = len(g)
        es = edges_str(g)

        def sym_for(algo, reserve=0):
            lim = budget(algo, m) - reserve
            if m <= lim:
                return 'all', m
            k = max(1, min(m, lim))
            return ','.join(map(str, sorted(r.sample(range(m), k)))), k
        pairs = [('signed', 'fvs'), ('signed', 'iso'), ('fvs', 'iso'), ('signed', 'signed_tbb'), ('fvs', 'fvs_tbb'), ('iso', 'iso_tbb')]
        if tier == 'thorough':
            pairs += [('fvs', 'signed'), ('iso', 'signed'), ('iso', 'fvs'), ('signed_tbb', 'iso_tbb')]
        for a, b in pairs:
            cases.append('rel=pair a=%s b=%s n=%d edges=%s sym=%s' % (a, b, n, es, sym_for(a + b)[0]))
        for algo in seqs:
            s, _ = sym_for(algo)
            base = 'algo=%s n=%d edges=%s sym=%s' % (algo, n, es, s)
            perms = [list(p) for p in itertools.permutations(range(n))][1:]
            if perms:
                chosen = perms if (tier == 'thorough' and m <= 4 and algo != 'iso') else r.sample(perms, min(len(perms), 1 if tier == 'quick' else 4))
                for p in chosen:
                    cases.append('rel=perm %s perm=%s' % (base, ','.join(map(str, p))))
            if m >= 2:
                cases.append('rel=order %s order=%s' % (base, ','.join(map(str, reversed(range(m))))))
                if tier == 'thorough':
                    o = list(range(m))
                    r.shuffle(o)
                    cases.append('rel=order %s order=%s' % (base, ','.join(map(str, o))))
            cases.append('rel=isolated ' + base)
            # relations that add edges: symbolic additions when the budget allows, fixed weights otherwise
            s2, k2 = sym_for(algo, reserve=2)
            room = budget(algo, m) - k2
            cases.append('rel=pendant algo=%s n=%d edges=%s sym=%s at=%d%s' % (algo, n, es, s2, r.randrange(n) if n else 0, '' if room >= 2 else ' addfixed=1'))
            s3, k3 = sym_for(algo, reserve=3)
            room = budget(algo, m) - k3
            cases.append('rel=bridge algo=%s n=%d edges=%s sym=%s at=%d%s' % (algo, n, es, s3, r.randrange(n) if n else 0, '' if room >= 3 else ' addfixed=1'))
            su, ku = sym_for(algo, reserve=2)
            room = max(1, budget(algo, m) - ku)
            cases.append('rel=union algo=%s n=%d edges=%s sym=%s n2=3 edges2=0-1,0-2,1-2 sym2=%s' % (
                algo, n, es, su, 'all' if room >= 3 else ','.join(map(str, sorted(r.sample(range(3), min(room, 3)))))))
            if tier == 'thorough':
                cases.append('rel=union algo=%s n=%d edges=%s sym=%s n2=4 edges2=0-1,0-2,0-3,1-2,1-3 sym2=%s bridge=1 addfixed=1' % (
                    algo, n, es, su, ','.join(map(str, sorted(r.sample(range(5), min(room, 2)))))))
            if m:
                ss, ks = sym_for(algo, reserve=1)
                for ei in (range(m) if (tier == 'thorough' and m <= 4) else [r.randrange(m)]):
                    cases.append('rel=subdivide algo=%s n=%d edges=%s sym=%s edge=%d' % (algo, n, es, ss, ei))
            for j in ((1,) if tier == 'quick' else (1, 3)):
                cases.append('rel=scale %s j=%d' % (base, j))
    # larger tie-heavy slices: variants must agree
    fams = [('K33', 2), ('grid3x3', 2), ('K5', 2)] if tier == 'quick' else \
        [('K33', 3), ('grid3x3', 3), ('K5', 3), ('Q3', 2), ('petersen', 2), ('K6', 2), ('grid3x4', 2), ('wheel5', 3), ('prism', 3)]
    for f, ns in fams:
        n, es = family(f)
        es = norm_edges(es)
        symidx = ','.join(map(str, sorted(r.sample(range(len(es)), ns))))
        for a, b in [('signed', 'fvs'), ('signed', 'iso'), ('fvs', 'iso')]:
            cases.append('rel=pair a=%s b=%s n=%d edges=%s sym=%s fam=%s' % (a, b, n, edges_str(es), symidx, f))
        p = list(range(n))
        r.shuffle(p)
        for algo in seqs:
            cases.append('rel=perm algo=%s n=%d edges=%s sym=%s perm=%s fam=%s' % (algo, n, edges_str(es), symidx, ','.join(map(str, p)), f))
            cases.append('rel=scale algo=%s n=%d edges=%s sym=%s j=3 fam=%s' % (algo, n, edges_str(es), symidx, f))
    # wide and shallow: seeded graphs on 6..8 vertices (and dense ones on 6..7), one symbolic weight against a concrete background
    q = tier == 'quick'
    wide = random_slices('REL', seed, 80 if q else 320, 1, nmin=6, nmax=8) + dense_slices('REL', seed, 24 if q else 96, 1, ns=(6, 7))
    allpairs = [('signed', 'fvs'), ('signed', 'iso'), ('fvs', 'iso'), ('signed', 'signed_tbb'), ('fvs', 'fvs_tbb'), ('iso', 'iso_tbb')]
    for i, c in enumerate(wide):
        rest = c.split(' ', 1)[1]
        pc = parse_case(rest)
        n, m = int(pc['n']), len(pc['edges'].split(','))
        kind = i % 3
        if kind == 0:
            a, b = allpairs[(i // 3) % len(allpairs)]
            cases.append('rel=pair a=%s b=%s %s' % (a, b, rest))
        elif kind == 1:
            p = list(range(n))
            r.shuffle(p)
            cases.append('rel=perm algo=%s %s perm=%s' % (seqs[(i // 3) % len(seqs)], rest, ','.join(map(str, p))))
        else:
            o = list(range(m))
            r.shuffle(o)
            cases.append('rel=order algo=%s %s order=%s' % (seqs[(i // 3) % len(seqs)], rest, ','.join(map(str, o))))
    return cases


def C08(tier, seed):
    cases = rel_cases(tier, seed)

    def rel_holds(rec, model, rbin):
        lines, den = _side_lines(rec, model)
        outs = {nm: run_replayer(rbin, [ln])[0] for nm, ln in lines.items()}
        if any(o.get('crashed') or o['exception'] for o in outs.values()):
            return False, lines, outs
        lhs = fractions.Fraction(outs['B']['ret'])
        rhs = int(rec['scale']) * fractions.Fraction(outs['A']['ret']) + (fractions.Fraction(outs['H']['ret']) if 'H' in outs else 0)
        return lhs == rhs, lines, outs

    def tv(leaves, rbin):
        n = 0
        for rec in leaves[:(40 if tier == 'quick' else 600)]:
            lines, den = _side_lines(rec, rec['model'])
            oa = run_replayer(rbin, [lines['A']])[0]
            ob = run_replayer(rbin, [lines['B']])[0]
            if oa.get('crashed') or ob.get('crashed'):
                return n, 'real build crashed on %s' % rec['case']
            if fractions.Fraction(oa['ret']) != parse_q(rec['retA']) * den or fractions.Fraction(ob['ret']) != parse_q(rec['retB']) * den:
                return n, 'returned optimum differs on %s model %s: symbolic A=%s B=%s (x%d) real A=%s B=%s' % (
                    rec['case'], rec['model'], rec['retA'], rec['retB'], den, oa['ret'], ob['ret'])
            n += 1
        return n, None

    def confirm(agg, rbin, out):
        items = agg.violated[:30]
        if agg.crashes:
            out.fault = 'crash in relational harness: %s' % json.dumps(agg.crashes[0])[:300]
            return
        for idx, (rec, obl) in enumerate(items):
            holds, lines, outs = rel_holds(rec, obl.get('model') or rec['model'], rbin)
            if holds:
                out.fault = 'relational counterexample did not reproduce on the real build: %s' % rec['case']
                return
            key = '%s/%s/%s' % (rec['rel'], rec['algoA'] + '+' + rec['algoB'], rec['A']['edges'])
            rp = os.path.join(cex_dir(), 'C08-replay-%d.json' % idx)
            json.dump({'property': 'C08', 'replayer': 'replay/r_mcb.cpp (relational)', 'lines': lines, 'scale': rec['scale'], 'observed': outs,
                       'key': key}, open(rp, 'w'), indent=1)
            kf = finding_matches('C08', key)
            if kf:
                out.n_known += 1
                out.known_lines.append('KNOWN-FINDING: property=C08 %s' % kf['text'])
            else:
                out.n_confirmed += 1
                out.violation_lines.append('VIOLATION property=C08 replay=%s' % rp)
    bounds = {
        'functions_encoded': ['parmcb::mcb_sva_signed', 'mcb_sva_fvs_trees', 'mcb_sva_iso_trees', 'the three *_tbb variants under the scheduler shim (default schedule)'],
        'bounds': 'two runs in one path over shared symbolic weights; graphs: every labelled 4-vertex graph with a cycle (m<=5 fully symbolic; K4 and '
                  'iso m=5 as 3-symbolic slices in quick), some forests, the empty graph; relations: variant pairs, seeded (thorough: all) vertex '
                  'permutations, reversed/seeded insertion orders, + isolated vertex, + pendant path, + bridge to a tree, disjoint union with a '
                  'triangle (thorough: with K4-e, with a connecting bridge), subdivision of an edge, scaling by 2 and 8; 2/3-symbolic slices of '
                  'K33, 3x3 grid, K5 (thorough: Q3, Petersen, K6, 3x4 grid, wheel, prism)',
        'outside_bounds': 'graphs with hundreds of vertices (no symbolic run of that size is affordable; largest are the 12-vertex slices)',
    }
    return run_symx_check('C08', tier, seed, 'harness/h_rel.cpp', cases, 1200 if tier == 'quick' else 3400, tv, confirm, bounds,
                          replayer='replay/r_mcb.cpp', witness_pick=lambda cs: [c for c in cs if 'sym=all' in c and 'n=4' in c][:8], keep_every=7)


# ----------------------------------------------------------------------------- C17
def _gf2_concretise(script, model):
    out = []
    for cmd in script.split(';'):
        toks = cmd.split()
        if not toks:
            continue
        conc = [toks[0]]
        for t in toks[1:]:
            if t.startswith('=') or t.isdigit():
                conc.append(t)
            else:
                conc.append(str(int(parse_q(model.get(t, '0')))))
        out.append(' '.join(conc))
    return ';'.join(out)


def _gf2_dense(script):
    """independent dense model in python: registers as sets; returns (regs, dots)"""
    regs = [set(), set(), set()]
    dots = []
    for cmd in script.split(';'):
        t = cmd.split()
        if not t:
            continue
        op = t[0]
        a = [int(x) for x in t[1:] if not x.startswith('=')]
        if op == 'setc':
            regs[a[0]] = set(a[1:])
        elif op == 'unit':
            regs[a[0]] = {a[1]}
        elif op in ('copy', 'move', 'assign', 'massign'):
            regs[a[0]] = set(regs[a[1]])
        elif op == 'plus':
            regs[a[0]] = regs[a[1]] ^ regs[a[2]]
        elif op == 'pluseq':
            regs[a[0]] = regs[a[0]] ^ regs[a[1]]
        elif op == 'dot':
            dots.append(len(regs[a[0]] & regs[a[1]]) % 2)
        elif op == 'dotset':
            dots.append(len(regs[a[0]] & set(a[1:])) % 2)
        elif op == 'clear':
            regs[a[0]] = set()
        elif op == 'selfplus':
            regs[a[0]] = set()
    return [sorted(r) for r in regs], dots


def C17(tier, seed):
    if tier == 'quick':
        cases = ['L=2 steps=1 R=2', 'L=1 steps=2 R=2', 'L=3 steps=1 R=2 op=4', 'L=3 steps=1 R=2 op=6']
    else:
        cases = ['L=3 steps=1 R=2 op=%d' % o for o in range(13)] + ['L=2 steps=2 R=2', 'L=1 steps=3 R=2', 'L=2 steps=1 R=3']

    def tv(leaves, rbin):
        lines, meta = [], []
        for rec in leaves:
            lines.append(_gf2_concretise(rec['script'], rec['model']))
            meta.append(rec)
        n = 0
        for rec, ln, o in zip(meta, lines, run_replayer_batch(rbin, lines)):
            if o.get('crashed'):
                return n, 'real SpVecGF2<size_t> crashed on ' + ln
            R = int(rec['R'])
            sym_final = [[int(parse_q(x)) for x in reg] for reg in rec['final']]
            dense, dots = _gf2_dense(ln)
            if o['regs'][:R] != sym_final or o['regs'][:R] != dense[:R] or o['dots'] != dots:
                return n, 'SpVecGF2<size_t> disagrees: script %s real %s symbolic-final %s dense %s' % (ln, o, sym_final, dense)
            n += 1
        return n, None

    def confirm(agg, rbin, out):
        for idx, (rec, obl) in enumerate(agg.violated[:20]):
            # the leaf record of a violated path carries the script only at leaf end; replay with the violating model
            script = rec.get('script')
            if not script:
                out.fault = 'violated leaf without script'
                return
            ln = _gf2_concretise(script, obl.get('model') or rec['model'])
            o = run_replayer(rbin, [ln])[0]
            dense, dots = _gf2_dense(ln)
            R = int(rec['R'])
            if not o.get('crashed') and o['regs'][:R] == dense[:R] and o['dots'] == dots:
                out.fault = 'C17 counterexample did not reproduce on SpVecGF2<size_t>: %s' % ln
                return
            rp = os.path.join(cex_dir(), 'C17-replay-%d.json' % idx)
            json.dump({'property': 'C17', 'replayer': 'replay/r_gf2.cpp', 'line': ln, 'observed': o, 'dense': dense, 'dots': dots}, open(rp, 'w'), indent=1)
            key = 'gf2/' + rec.get('history', '')
            kf = finding_matches('C17', key)
            if kf:
                out.n_known += 1
                out.known_lines.append('KNOWN-FINDING: property=C17 %s' % kf['text'])
            else:
                out.n_confirmed += 1
                out.violation_lines.append('VIOLATION property=C17 replay=%s' % rp)
        if agg.crashes and not agg.violated:
            out.fault = 'crash in gf2 harness: %s' % json.dumps(agg.crashes[0])[:300]
    bounds = {
        'functions_encoded': ['parmcb::SpVecGF2<U> (all constructors, operator=, operator* (vector, set), operator+, operator+=, size, begin/end, clear)'],
        'bounds': 'U = symx::Int (unbounded non-negative indices: every dimension); pre-state: registers built from symbolic index sets of '
                  'symbolic size <= L; quick: L=2 one arbitrary operation, L=1 two operations, L=3 for + and *; thorough: L=3 every operation, '
                  'L=4 for +, +=, *, histories of 2 (L=2) and 3 (L=1, three registers) operations',
        'outside_bounds': 'vectors with more than L ones; histories longer than 3; SpVecGF2::add (never called in the repository); serialization',
        'inductive_step': 'every canonical vector with <= L ones is reachable by the set constructor, so a one-operation step from that pre-state '
                          'covers histories of any length over vectors of that size',
    }
    assume = ['engine A with symx::Int (z3 Int sort); indices are mathematical non-negative integers',
              'trusted: z3 4.8.12 (linear integer arithmetic), the dense XOR-multiset model written in the harness, re-checked per run by an '
              'independent python set model on the real SpVecGF2<size_t>']
    return run_symx_check('C17', tier, seed, 'harness/h_gf2.cpp', cases, 600 if tier == 'quick' else 3000, tv, confirm, bounds,
                          replayer='replay/r_gf2.cpp', witness_pick=lambda cs: ['L=2 steps=1 R=2 op=4'], assumptions=assume, keep_every=11)


# ----------------------------------------------------------------------------- C18
def _bvval(s, width):
    s = str(s)
    v = int(s[2:], 16) if s.startswith('#x') else (int(s[2:], 2) if s.startswith('#b') else int(s))
    if v >= 1 << (width - 1):
        v -= 1 << width
    return v


def _egcd_ok(a, b, g, x, y):
    return g == math.gcd(a, b) and g > 0 and a * x + b * y == g


def _is_prime(p):
    return p >= 2 and all(p % k for k in range(2, int(p ** 0.5) + 1))


def _fp_dense(script, p):
    regs = [{}, {}]
    res, dot = None, None
    for cmd in script.split(';'):
        t = cmd.split()
        if not t:
            continue
        if t[0] == 'term':
            r, idx, c = int(t[1]), int(t[2]), int(t[3])
            regs[r][idx] = regs[r].get(idx, 0) + c
        elif t[0] in ('plus', 'pluseq'):
            res = dict(regs[0])
            for k, v in regs[1].items():
                res[k] = res.get(k, 0) + v
        elif t[0] in ('scale', 'scaleeq'):
            res = {k: v * int(t[1]) for k, v in regs[0].items()}
        elif t[0] == 'dot':
            dot = sum(v * regs[1].get(k, 0) for k, v in regs[0].items()) % p
        elif t[0] == 'assign':
            res = dict(regs[0])

    def canon(d):
        return [[k, str(v % p)] for k, v in sorted(d.items()) if v % p]
    return canon(regs[0]), canon(regs[1]), (canon(res) if res is not None else None), dot


def _fp_line(rec, model, typ):
    W = int(rec['W'])
    toks = []
    for cmd in rec['script'].split(';'):
        t = cmd.split()
        if not t:
            continue
        toks.append('_'.join(x if (x.lstrip('-').isdigit() or x in ('term', 'plus', 'scale', 'dot', 'pluseq', 'scaleeq', 'assign'))
                             else str(_bvval(model[x], W)) for x in t))
    return 'what=fpvec type=%s p=%s script=%s' % (typ, rec['p'], ';'.join(toks))


def _fp_bad(line, o):
    c = parse_case(line)
    p = int(c['p'])
    a, b, res, dot = _fp_dense(c['script'].replace('_', ' '), p)
    if o.get('crashed'):
        return True
    if o['a'] != a or o['b'] != b:
        return True
    if res is not None and o.get('res') != res:
        return True
    if dot is not None and (int(o['dot']) - dot) % p != 0:
        return True
    return False


def _int_line_and_bad(rec, model, typ='int'):
    """(replayer line, predicate(o) -> violated) for a C18 leaf/counterexample"""
    W = int(rec['W'])
    what = rec['what']
    if what in ('gcd', 'gcdc'):
        a = _bvval(model['a'], W)
        b = int(rec['mod']) if what == 'gcdc' else _bvval(model['b'], W)
        return ('what=gcd type=%s a=%d b=%d' % (typ, a, b),
                lambda o: o.get('crashed') or not _egcd_ok(a, b, int(o['g']), int(o['x']), int(o['y'])))
    if what == 'inv':
        a = _bvval(model['a'], W)
        p = _bvval(model['p'], W) if rec['mod'] == 'sym' else int(rec['mod'])

        def bad(o):
            if o.get('crashed'):
                return True
            cop = math.gcd(a, p) == 1
            if o['threw']:
                return cop
            return (not cop) or (a * int(o['ret']) - 1) % p != 0
        return 'what=inv type=%s a=%d p=%d' % (typ, a, p), bad
    if what == 'prime':
        p = _bvval(model['p'], W)
        return 'what=prime type=%s p=%d' % (typ, p), lambda o: o.get('crashed') or o['result'] != _is_prime(p)
    if what == 'spvecfp':
        ln = _fp_line(rec, model, typ)
        return ln, lambda o: _fp_bad(ln, o)
    raise EngineFault('unknown C18 case ' + what)


def C18(tier, seed):
    moduli = [1, 2, 3, 5, 7, 11, 13, 17, 97, 257]
    c8, c12, c16 = [], [], []
    c8.append('what=gcd')
    c8.append('what=inv mod=sym lim=60')
    for m in [2, 3, 5, 7, 11, 13, 17, 97]:
        c8.append('what=inv mod=%d' % m)
    c16 += ['what=gcdc mod=%d lim=%d' % (m, 2000 if tier == 'quick' else 32767) for m in moduli + [65537 % 32768]]
    c16 += ['what=inv mod=%d lim=%d' % (m, 2000 if tier == 'quick' else 32767) for m in [2, 3, 5, 7, 17, 97, 257, 8191]]
    c16.append('what=prime lim=%d' % (4095 if tier == 'quick' else 32767))
    c12.append('what=prime')
    # SpVecFP: every operation; monitored (no signed overflow allowed) runs use p with (p-1)^2 representable and any scalar
    for p in ([2, 3] if tier == 'quick' else [2, 3, 5]):
        for op in range(6):
            c8.append('what=spvecfp p=%d L=1 op=%d monitor=1' % (p, op))
    c8.append('what=spvecfp p=5 L=1 op=1 monitor=1')
    c8.append('what=spvecfp p=7 L=1 op=1 monitor=1')
    c8.append('what=spvecfp p=11 L=1 op=4 monitor=1')
    if tier == 'thorough':
        c8 += ['what=spvecfp p=2 L=2 op=%d monitor=1' % op for op in (0, 2, 3)]
        c8 += ['what=spvecfp p=7 L=1 op=%d monitor=1' % op for op in range(6)]
    t0 = time.time()
    bins = build_many([('harness/h_int.cpp', 'symx', 'h_int8', ('-DBVW=8',)), ('harness/h_int.cpp', 'symx', 'h_int12', ('-DBVW=12',)),
                       ('harness/h_int.cpp', 'symx', 'h_int16', ('-DBVW=16',)), ('replay/r_int.cpp', 'real_nolib')])
    h8, h12, h16, rbin = bins
    agg = Agg(['C18:'])
    out = Outcome('C18')
    leaves = []

    def keep(rec):
        if rec.get('obl'):
            return  # leaves with a violated obligation go to the counterexample replay, not to translation validation
        if len(leaves) < 20000:
            leaves.append(rec)
    budget = 900 if tier == 'quick' else 3300
    ws, _ = run_harness(h8, ['what=inv mod=7', 'what=spvecfp p=3 L=1 op=0'], 'C18-witness', timeout=300, witness=True)
    if ws.get('witness_hits', 0) <= 0:
        out.fault = 'witness twin was not violated'
    agg.witness_hits = ws.get('witness_hits', 0)
    import concurrent.futures
    with concurrent.futures.ThreadPoolExecutor(max_workers=3) as ex:
        futs = [ex.submit(run_harness, h, cs, 'C18-%s-w%d' % (tier, w), budget, 6 if w != 8 else 8)
                for h, cs, w in ((h8, c8, 8), (h12, c12, 12), (h16, c16, 16)) if cs]
        for f in futs:
            s, log = f.result()
            agg.add_summary(s)
            agg.add_log(log, keep)
    if agg.leaves == 0 or not agg.obl:
        out.fault = 'no leaf reached an obligation of C18'
    nvalid = 0
    if not out.fault:
        r = rng(seed)
        r.shuffle(leaves)
        sample = leaves[:(120 if tier == 'quick' else 3000)]
        lines, preds = [], []
        for rec in sample:
            for typ in ('int', 'cpp_int'):
                ln, bad = _int_line_and_bad(rec, rec['model'], typ)
                lines.append(ln)
                preds.append(bad)
        for ln, bad, o in zip(lines, preds, run_replayer_batch(rbin, lines)):
            if bad(o):
                out.fault = 'translation validation: real integer build violates the property where the symbolic leaf did not: %s -> %s' % (ln, json.dumps(o)[:300])
                break
            nvalid += 1
    if not out.fault:
        items = [(rec, obl) for rec, obl in agg.violated[:40]]
        for rec in agg.crashes[:10]:
            if rec.get('model') and rec.get('what'):
                items.append((rec, {'name': 'C18:crash(signal %s)' % rec.get('signal')}))
            else:
                out.fault = 'crash without model: %s' % json.dumps(rec)[:300]
        for idx, (rec, obl) in enumerate(items):
            if out.fault:
                break
            confirmed = None
            for typ in ('int', 'long', 'cpp_int'):
                ln, bad = _int_line_and_bad(rec, obl.get('model') or rec['model'], typ)
                o = run_replayer(rbin, [ln])[0]
                if bad(o):
                    confirmed = (ln, o)
                    break
            if 'no-signed-overflow' in obl['name'] and confirmed is None:
                # overflow at width W need not occur at 32/64 bits with the same values: scale is reported, not replayable
                out.fault = 'signed-overflow event at BV width %s not reproduced on built-in types: %s' % (rec['W'], rec['case'])
                break
            if confirmed is None:
                out.fault = 'C18 counterexample did not reproduce on real integer types: %s %s' % (rec['case'], obl['name'])
                break
            rp = os.path.join(cex_dir(), 'C18-replay-%d.json' % idx)
            json.dump({'property': 'C18', 'replayer': 'replay/r_int.cpp', 'line': confirmed[0], 'observed': confirmed[1], 'obligation': obl['name']},
                      open(rp, 'w'), indent=1)
            key = '%s/%s' % (rec['what'], obl['name'])
            kf = finding_matches('C18', key)
            if kf:
                out.n_known += 1
                out.known_lines.append('KNOWN-FINDING: property=C18 %s' % kf['text'])
            else:
                out.n_confirmed += 1
                out.violation_lines.append('VIOLATION property=C18 replay=%s' % rp)
    bounds = {
        'functions_encoded': ['parmcb::fp<T>::ext_gcd', 'fp<T>::get_mult_inverse', 'parmcb::primes<T>::is_prime', 'parmcb::SpVecFP<P> (+, +=, * scalar, *=, dot, assignments, clear)'],
        'bounds': 'T = symx::BV<W>: ext_gcd both operands symbolic at W=8 (|a|,|b|<=127); a symbolic at W=16 against '
                  'moduli {1,2,3,5,7,11,13,17,97,257,...}; get_mult_inverse: symbolic p<=60 at W=8, fixed moduli at W=8/16; is_prime: every p in '
                  '[2,2047] at W=12 and [2,4095] (thorough 32767) at W=16; SpVecFP<BV<8>>: p in {2,3,(5,7,11)}, vectors of <=1 (thorough: 2 for p=2) '
                  'symbolic terms over indices 0..L, scalars of any sign over the whole 8-bit range with signed-overflow monitoring',
        'outside_bounds': 'operands beyond the widths above (stand-in for built-in 32/64-bit and multiprecision types, which the replays exercise on '
                          'sampled values only); p with (p-1)^2 not representable in P (overflow inherent to built-in P)',
        'sqrt_stub': 'sqrt(p) is stubbed by its documented result floor(sqrt(p)) (assumed, part of the claim)',
    }
    assume = ['engine A with symx::BV<W> (two\'s complement, truncating / and %, signed comparisons); per-query bit-blasting solver',
              'trusted: z3 4.8.12 (QF_BV), the sqrt stub, the dense model mod p in 4W-bit arithmetic']
    return finish('C18', tier, seed, 'model_checking', agg, out, bounds, assume, t0, nvalid)


# ----------------------------------------------------------------------------- C13 / C16 (topology only)
def check_topo(prop, what, tier, seed):
    ns = [0, 1, 2, 3, 4, 5, 6]
    cases = []
    for n in ns:
        orders = 1 if n <= 1 else (3 if n <= 5 else (1 if tier == 'quick' else 2))
        cases.append('what=%s n=%d orders=%d seed=%d' % (what, n, orders, seed))
    # disjoint unions of 2..4 small components (up to 16 vertices) under a seeded relabelling: many components, K2 components, pendant
    # trees next to cycles — shapes of the property's quantifier that no graph on <= 6 vertices has
    catalog = [(1, []), (2, [(0, 1)]), (3, [(0, 1), (1, 2)]), (3, [(0, 1), (1, 2), (0, 2)]), (4, [(0, 1), (1, 2), (2, 3), (0, 3)]),
               (4, all_pairs(4)), (4, [(0, 1), (1, 2), (0, 2), (2, 3)]), (5, [(0, 1), (1, 2), (0, 2), (2, 3), (3, 4), (2, 4)]),
               (5, [(i, (i + 1) % 5) for i in range(5)]), (4, [(0, 1), (0, 2), (0, 3)])]
    r = rng(shash((seed, what, 'unions')))
    combos = []
    for k in (2, 3, 4):
        combos += list(itertools.combinations_with_replacement(range(len(catalog)), k))
    if tier == 'quick':
        combos = r.sample(combos, 250)
    for combo in combos:
        nv, es = 0, []
        for ci in combo:
            cn, ce = catalog[ci]
            es += [(a + nv, b + nv) for a, b in ce]
            nv += cn
        perm = list(range(nv))
        r.shuffle(perm)
        es = [tuple(sorted((perm[a], perm[b]))) for a, b in es]
        r.shuffle(es)
        cases.append('what=%s n=%d edges=%s orders=2 seed=%d union=1' % (what, nv, edges_str(es), seed))
    if tier == 'thorough':
        # 7 vertices: sparse and dense ends only (solver-side edge-count assumptions)
        cases.append('what=%s n=7 orders=1 maxm=6 seed=%d' % (what, seed))
        cases.append('what=%s n=7 orders=1 minm=17 seed=%d' % (what, seed))
        cases.append('what=%s n=7 orders=1 minm=7 maxm=8 seed=%d' % (what, seed))

    def tv(leaves, rbin):
        lines, meta = [], []
        for rec in leaves:
            lines.append('what=%s n=%s edges=%s%s' % (what, rec['n'], rec['edges'], (' order=' + rec['order']) if rec.get('order') else ''))
            meta.append(rec)
        n = 0
        for rec, o in zip(meta, run_replayer_batch(rbin, lines)):
            if o.get('crashed'):
                return n, 'real build crashed on %s' % rec['edges']
            if what == 'fvs':
                if not (o['distinct_in_range'] and o['acyclic']) or ('fvs_size' in rec and int(rec['fvs_size']) != o['size']):
                    return n, 'greedy_fvs differs on %s: %s' % (rec['edges'], o)
            else:
                if not (o['bijection'] and o['forest_ok'] and o['flag_ok'] and o.get('copies_ok', True) and o['components'] == o['exp_components'] and o['dim'] == o['exp_dim']):
                    return n, 'ForestIndex differs on %s: %s' % (rec['edges'], o)
            n += 1
        return n, None

    def bad(o, rec, obl):
        if what == 'fvs':
            return not (o['distinct_in_range'] and o['acyclic']) or (o['exp_dim'] == 0 and o['size'] != 0 if 'exp_dim' in o else False)
        return not (o['bijection'] and o['forest_ok'] and o['flag_ok'] and o.get('copies_ok', True) and o['components'] == o['exp_components'] and o['dim'] == o['exp_dim'])

    def confirm(agg, rbin, out):
        items = [(rec, obl) for rec, obl in agg.violated[:30]] + [(rec, {'name': prop + ':crash'}) for rec in agg.crashes[:10]]
        for idx, (rec, obl) in enumerate(items):
            if 'edges' not in rec:
                # the topology of a crashed path is in its birth model (adjacency bits)
                mdl = rec.get('model', {})
                es = [k[2:].replace('_', '-') for k, v in mdl.items() if k.startswith('e_') and v == 'true']
                rec = dict(rec, edges=','.join(es) if es else '-', n=parse_case(rec['case'])['n'], order='')
            line = 'what=%s n=%s edges=%s%s' % (what, rec['n'], rec['edges'], (' order=' + rec['order']) if rec.get('order') else '')
            o = run_replayer(rbin, [line])[0]
            if not (o.get('crashed') or bad(o, rec, obl)):
                # forest => nothing emitted is checked here for fvs
                if what == 'fvs' and dim(int(rec['n']), [tuple(map(int, e.split('-'))) for e in rec['edges'].split(',')] if rec['edges'] != '-' else []) == 0 and o['size'] != 0:
                    pass
                else:
                    out.fault = 'counterexample did not reproduce on the real build: %s' % line
                    return
            rp = os.path.join(cex_dir(), '%s-replay-%d.json' % (prop, idx))
            json.dump({'property': prop, 'replayer': 'replay/r_misc.cpp', 'line': line, 'observed': o, 'obligation': obl['name']}, open(rp, 'w'), indent=1)
            key = '%s/%s' % (what, rec['edges'])
            kf = finding_matches(prop, key)
            if kf:
                out.n_known += 1
                out.known_lines.append('KNOWN-FINDING: property=%s %s' % (prop, kf['text']))
            else:
                out.n_confirmed += 1
                out.violation_lines.append('VIOLATION property=%s replay=%s' % (prop, rp))

    seen_inputs = set()
    counts = {'nontrivial': 0}

    def on_leaf(rec):
        key = (rec.get('n'), rec.get('edges'), rec.get('order'))
        if key not in seen_inputs:
            seen_inputs.add(key)
            if rec.get('edges') not in ('-', '', None):
                counts['nontrivial'] += 1

    def extra(agg):
        return {'evaluations': agg.leaves, 'distinct_nontrivial': counts['nontrivial'], 'distinct_inputs': len(seen_inputs),
                'rule': 'one leaf per (labelled simple graph on n vertices, edge insertion order variant); adjacency bits are boolean variables of the '
                        'path condition decided through the engine; distinct = distinct (n, edge set, insertion order) as counted by the driver; non-trivial = the graph has at least one edge',
                'exhaustive': True}
    bounds = {
        'functions_encoded': ['parmcb::greedy_fvs'] if what == 'fvs' else ['parmcb::ForestIndex', 'parmcb::detail::spanning_forest'],
        'bounds': 'every labelled simple graph on n <= 6 vertices (n=6: 32768 graphs; quick: natural insertion order only for n=6) in natural, reversed(+flipped endpoints) and a seeded insertion '
                  'order; plus %s disjoint unions of 2..4 small components (up to 16 vertices, seeded relabelling)%s' % ('250 seeded' if tier == 'quick' else 'all 935', '; thorough: n=7 with m<=8 or m>=17' if tier == 'thorough' else ''),
        'outside_bounds': 'graphs on more vertices',
        'note': 'degenerate case of the technique: the input is topology only, the solver only enumerates adjacency bits; claimed as exhaustive exploration',
    }
    assume = ['real adjacency_list<vecS,vecS,undirectedS>; checks by an independent union-find (symx/oracle.hpp)']
    return run_symx_check(prop, tier, seed, 'harness/h_topo.cpp', cases, 600 if tier == 'quick' else 3000, tv, confirm, bounds,
                          witness_pick=lambda cs: [c for c in cs if 'n=3' in c], assumptions=assume, level='exploration', keep_every=3,
                          extra_cov=extra, on_leaf=on_leaf)


def C13(tier, seed):
    return check_topo('C13', 'fvs', tier, seed)


def C16(tier, seed):
    return check_topo('C16', 'findex', tier, seed)


# ----------------------------------------------------------------------------- C20 (engine B)
def C20(tier, seed):
    import engb
    t0 = time.time()
    gen = engb.lower_unit('ir2c/wrap/w_c20.cpp', ['w_set_concurrency'], 'u_c20')
    models = ['ir2c/models/common.c', 'ir2c/models/tbb_gc.c']
    files = [gen] + [os.path.join(VERIF, m) for m in models] + [os.path.join(VERIF, 'ir2c/harness/h_c20.c')]
    out = Outcome('C20')
    calls = 3 if tier == 'quick' else 6
    # 1. the generated C must behave like the real function (real libtbb) on the same call sequences
    d = engb.diff_build(gen, 'ir2c/wrap/w_c20.cpp', 'ir2c/harness/d_c20.cpp', models, 'u_c20', libs=['-ltbb'])
    r = subprocess.run([d, str(seed)], stdout=subprocess.PIPE, stderr=subprocess.PIPE, text=True)
    try:
        diff = json.loads(r.stdout.strip().splitlines()[-1])
    except Exception:
        raise EngineFault('differential driver for C20 crashed: ' + r.stderr[-500:])
    # 2. witness twin
    w = engb.cbmc(files, 'harness', calls + 2, defines=['WITNESS', 'CALLS=%d' % calls], timeout=300, trace=False)
    if w['verdict'] != 'failed':
        raise EngineFault('witness twin of the C20 harness was not violated')
    # 3. the property, swept over back ends (first verdict wins is not needed: each must agree)
    res = engb.cbmc(files, 'harness', calls + 2, defines=['CALLS=%d' % calls], timeout=600)
    res2 = engb.cbmc(files, 'harness', calls + 2, defines=['CALLS=%d' % calls], backend=('--sat-solver', 'cadical'), timeout=600, trace=False)
    if res['verdict'] != res2['verdict']:
        raise EngineFault('back ends disagree on C20: kissat %s cadical %s' % (res['verdict'], res2['verdict']))
    rbin = build('replay/r_c20.cpp', 'real')
    violated = res['verdict'] == 'failed'
    model_mismatch = diff['mismatches'] > 0
    if violated:
        # replay on the real libtbb: any n different from the default exposes it
        ns = [3, 5, 2]
        o = run_replayer(rbin, [' '.join(map(str, ns))])[0]
        real_bad = o.get('crashed') or any(st[0] != st[1] for st in o['steps'])
        if not real_bad:
            out.fault = 'cbmc counterexample for C20 did not reproduce with the real libtbb (model/encoding wrong): %s' % res['failed']
        else:
            rp = os.path.join(cex_dir(), 'C20-replay-0.json')
            json.dump({'property': 'C20', 'replayer': 'replay/r_c20.cpp', 'line': ' '.join(map(str, ns)), 'observed': o,
                       'cbmc_failed': res['failed'], 'cbmc_inputs': res['trace_inputs']}, open(rp, 'w'), indent=1)
            kf = finding_matches('C20', 'set_global_tbb_concurrency')
            if kf:
                out.n_known += 1
                out.known_lines.append('KNOWN-FINDING: property=C20 %s' % kf['text'])
            else:
                out.n_confirmed += 1
                out.violation_lines.append('VIOLATION property=C20 replay=%s' % rp)
    elif model_mismatch:
        out.fault = 'generated C + global_control model disagrees with the real function on real libtbb: %s' % diff
    agg = Agg(['C20:'])
    agg.leaves = 1
    agg.forks = res.get('sat_vars', 1) or 1
    nprops = len(res['props'])
    agg.obl = {'C20:' + p[1]: [1, 1 if p[2] == 'SUCCESS' else 0] for p in res['props'] if p[0].startswith('harness.')}
    agg.samples = [{'harness': 'ir2c/harness/h_c20.c', 'calls': calls, 'inputs': 'n_i, default: arbitrary size_t >= 1',
                    'assertions': [p for p in res['props'] if p[0].startswith('harness.')][:6]}]
    cov = {
        'functions_encoded': ['parmcb::set_global_tbb_concurrency (lowered from clang -O1 IR, incl. its function-local static holder)'],
        'cbmc_units': [os.path.basename(gen)], 'unwind': calls + 2, 'backend': [res['backend'], res2['backend']],
        'cbmc_properties_checked': nprops, 'cbmc_wall_s': [res['wall_s'], res2['wall_s']],
        'sat_vars': res.get('sat_vars'), 'sat_clauses': res.get('sat_clauses'),
        'bounds': 'sequences of %d calls with arbitrary n_i >= 1 and arbitrary default parallelism >= 1 (64-bit)' % calls,
        'outside_bounds': "the demos' --cores handling in main() (program_options/iostream code, not encodable); longer call sequences; "
                          'the pre-2021 task_scheduler_init branch',
        'stubs': ['tbb::detail::r1::create/destroy(global_control&) = multiset of live limits, active_value = min(live) or default',
                  'operator new/delete = malloc/free (non-null)', '__cxa_guard_* = single-threaded guard byte', '__cxa_atexit = no-op'],
        'differential_test_vs_real_libtbb': diff,
    }
    assume = ['engine B: clang-14 -O1 IR of the extern-C wrapper translated to C by ir2c/ir2c.py, checked by cbmc 6.11 with unwinding assertions',
              'trusted: the global_control life-cycle model (the documented contract), ir2c.py (validated per run by a differential run against '
              'the real function linked with libtbb), cbmc + kissat/cadical']
    return finish('C20', tier, seed, 'model_checking', agg, out, cov, assume, t0, diff['compared'])


# ----------------------------------------------------------------------------- C03 (TBB entry points under the scheduler shim)
def tbb_cases(tier, seed):
    cases = []
    lmax = 4 if tier == 'quick' else 5
    exact = ['signed_tbb', 'fvs_tbb', 'iso_tbb']
    approx = ['approx_signed_tbb', 'approx_fvs_tbb', 'approx_iso_tbb']
    graphs = [(4, g) for g in iso_classes(4) if dim(4, g) >= 1]
    graphs += [(3, [(0, 1), (0, 2), (1, 2)]), (4, [(0, 1), (1, 2), (2, 3)]), (4, []), (0, []), (5, [(0, 1), (2, 3)])]
    if tier == 'thorough':
        graphs += [(5, g) for g in iso_classes(5, max_m=5, min_m=5) if dim(5, g) >= 1]
    r = rng(seed)
    for n, g in graphs:
        m = len(g)
        for algo in exact:
            lim = 5
            if 'iso' in algo:
                lim -= 1
            if n == 5 and 'iso' in algo:
                continue
            if m <= lim:
                cases.append('algo=%s n=%d edges=%s sym=all lmax=%d' % (algo, n, edges_str(g), lmax))
            else:
                cases.append('algo=%s n=%d edges=%s sym=%s lmax=%d' % (algo, n, edges_str(g), ','.join(map(str, sorted(r.sample(range(m), 3)))), min(lmax, 4)))
        for algo in approx:
            for k in (1, 2):
                lim = 4
                if n == 5:
                    continue
                s = 'all' if m <= lim else ','.join(map(str, sorted(r.sample(range(m), 3))))
                cases.append('algo=%s k=%d n=%d edges=%s sym=%s lmax=%d' % (algo, k, n, edges_str(g), s, min(lmax, 4)))
    fams = [('K33', 2)] if tier == 'quick' else [('K33', 2), ('K5', 2), ('wheel5', 2), ('prism', 2)]
    for f, ns in fams:
        for algo in exact + (['approx_signed_tbb'] if tier == 'thorough' else []):
            cases += slice_cases(algo, f, ns, seed, variants=1, extra=' lmax=%d cb=%d%s' % (3, 1 if tier == 'quick' else 2, ' k=2' if algo.startswith('approx') else ''))
    if tier == 'thorough':
        for algo in exact:
            cases += random_slices(algo, seed, 8 if 'iso' not in algo else 4, 2, extra=' lmax=3 cb=1')
        cases += dense_slices('signed_tbb', seed, 10, 2, extra=' lmax=3 cb=1')
    else:
        cases += random_slices('signed_tbb', seed, 6, 2, extra=' lmax=3 cb=0')
        cases += dense_slices('signed_tbb', seed, 4, 2, extra=' lmax=3 cb=1')
    # wide and shallow: seeded graphs on 6..8 vertices, one symbolic weight, one symbolic scheduling choice
    q = tier == 'quick'
    for algo in exact:
        cases += random_slices(algo, seed, 40 if q else 160, 1, nmin=6, nmax=8, extra=' lmax=3 cb=1 seed=%d' % seed)
    cases += dense_slices('signed_tbb', seed, 30 if q else 120, 1, extra=' lmax=3 cb=1 seed=%d' % seed, ns=(6, 7))
    for algo in approx:
        cases += random_slices(algo, seed, 20 if q else 80, 1, nmin=6, nmax=8, extra=' lmax=3 cb=1 seed=%d k=2' % seed)
    cb = 2
    return [c if ' cb=' in c else c + ' cb=%d seed=%d' % (cb, seed) for c in cases]


def C03(tier, seed):
    prop = 'C03'
    t0 = time.time()
    h, r_mcb = build_many([('harness/h_tbb.cpp', 'symx'), ('replay/r_mcb.cpp', 'real')])
    cases = tbb_cases(tier, seed)
    agg = Agg([prop + ':'])
    out = Outcome(prop)
    wcases = [c for c in cases if 'n=4' in c and 'sym=all' in c][:8]
    ws, _ = run_harness(h, wcases, prop + '-witness', timeout=300, witness=True)
    if ws.get('witness_hits', 0) <= 0:
        out.fault = 'witness twin was not violated'
    leaves = []
    sched_stats = {'reduces': 0, 'schedules': 0, 'max_alts': 0}

    def keep(rec):
        if rec.get('obl'):
            return  # leaves with a violated obligation go to the counterexample replay, not to translation validation
        if 'reduces' in rec:
            sched_stats['reduces'] += int(rec['reduces'])
            sched_stats['schedules'] += int(rec['schedules'])
            sched_stats['max_alts'] = max(sched_stats['max_alts'], int(rec['max_alts']))
        if 'ret' in rec and (rec['path'] % 5 == 0 or rec['depth'] == 0) and len(leaves) < 60000:
            leaves.append(rec)
    s, log = run_harness(h, cases, prop + '-' + tier, timeout=1200 if tier == 'quick' else 3400)
    agg.add_summary(s)
    agg.witness_hits = ws.get('witness_hits', 0)
    agg.add_log(log, keep)
    if agg.leaves == 0 or not agg.obl:
        out.fault = 'no leaf reached an obligation of C03'
    nvalid = 0
    if not out.fault:
        # real libtbb replays of sampled leaf models: exact variants must return the predicted optimum; approximate ones must satisfy the property
        r = rng(seed)
        r.shuffle(leaves)
        lines, meta = [], []
        for rec in leaves[:(48 if tier == 'quick' else 1500)]:
            weights, den = instance_weights(rec, rec['model'])
            if max(weights + [0]) > 2 ** 40:
                continue
            lines.append(replay_line(rec, weights, 'double'))
            meta.append((rec, den))
            # and with non-integral (dyadic, exactly representable) weights
            lines.append(replay_line(rec, [w / 8.0 for w in weights], 'double'))
            meta.append((rec, fractions.Fraction(den, 8)))
        for (rec, den), o, line in zip(meta, run_replayer_batch(r_mcb, lines), lines):
            bad = o.get('crashed') or c01_violated(o) or o['ret'] != o['sum']
            if not bad:
                if rec['algo'].startswith('approx'):
                    bad = approx_bound_violated(o, int(rec['k']))
                else:
                    bad = o['sum'] != o['opt']
            if bad:
                real_violation(out, prop, line, o, '%s/%s' % (rec.get('algo'), rec.get('edges')), 'real libtbb build violates the property on a leaf model')
                continue
            if not rec['algo'].startswith('approx') and fractions.Fraction(o['ret']) != parse_q(rec['ret']) * den:
                out.fault = 'translation validation: real libtbb build disagrees on %s model %s: %s' % (rec['case'], rec['model'], json.dumps(o)[:300])
                break
            nvalid += 1
    if not out.fault:
        def pred(o, rec):
            if c01_violated(o) or o['ret'] != o['sum']:
                return True
            if rec['algo'].startswith('approx'):
                return approx_bound_violated(o, int(rec['k']))
            return o['sum'] != o['opt']
        # a schedule-dependent counterexample need not reproduce under real TBB's schedule; such cases are replayed under the shim
        seen_unrepro = []
        saved_violated = list(agg.violated)
        confirm_violations(prop, agg, r_mcb, pred, lambda rec, obl: '%s/%s' % (rec.get('algo'), rec.get('edges')), out)
        if out.fault and ('did not reproduce' in out.fault or 'reproduced on the real build' in out.fault) and saved_violated:
            # replay under the shim with concrete weights and the recorded schedule choices
            redo = []
            for rec, obl in saved_violated[:10]:
                weights, _ = instance_weights(rec, obl.get('model') or rec['model'])
                redo.append('algo=%s n=%s edges=%s sym=none fixed=%s lmax=%s cb=%s seed=%s%s' % (rec['algo'], rec['n'], rec['edges'], ','.join(map(str, weights)), rec['lmax'], rec.get('cb', 3), rec.get('seed', 1),
                                                                                   (' k=%s' % rec['k']) if rec.get('k') else ''))
            s2, log2 = run_harness(h, redo, prop + '-confirm', timeout=600)
            a2 = Agg([prop + ':'])
            a2.add_log(log2)
            if a2.violated:
                out.fault = None
                for i, (rec, obl) in enumerate(a2.violated[:5]):
                    rp = os.path.join(cex_dir(), 'C03-replay-shim-%d.json' % i)
                    json.dump({'property': 'C03', 'replayer': 'harness/h_tbb.cpp under the scheduler shim (schedule-dependent; concrete weights)',
                               'line': rec['case'], 'choices': rec.get('choices'), 'obligation': obl['name']}, open(rp, 'w'), indent=1)
                    key = '%s/%s' % (rec.get('algo'), rec.get('edges'))
                    kf = finding_matches(prop, key)
                    if kf:
                        out.n_known += 1
                        out.known_lines.append('KNOWN-FINDING: property=C03 %s' % kf['text'])
                    else:
                        out.n_confirmed += 1
                        out.violation_lines.append('VIOLATION property=C03 replay=%s' % rp)
    bounds = {
        'functions_encoded': ['parmcb::mcb_sva_signed_tbb (OddCycleFinder)', 'mcb_sva_fvs_trees_tbb', 'mcb_sva_iso_trees_tbb (ShortestOddCycleLookup<.., true>)',
                              'approx_mcb_sva_{signed,fvs_trees,iso_trees}_tbb (NonSpannerEdgesCycleBuilder<.., true>)'],
        'bounds': 'weights symbolic; every parallel_reduce over a range of length <= lmax (%d) evaluates ALL schedules (leaf partitions x run groupings x join '
                  'orders) side by side, longer ranges a reduced set of 6; every parallel_for is a symbolic choice among all chunkings/orders up to length 3, '
                  'else 5 patterns; graphs: 4-vertex graphs with a cycle (quick: one per isomorphism class, m<=5 fully symbolic), small forests/empty graph, '
                  '2-symbolic slices of K33 (thorough: lmax 5, 5-vertex graphs with 5 edges for signed/fvs, slices of K5, wheel, prism, seeded random 6-7 vertex graphs)' % (4 if tier == 'quick' else 5),
        'schedules_per_reduce_max': sched_stats['max_alts'], 'parallel_reduce_calls': sched_stats['reduces'], 'reduce_schedules_evaluated': sched_stats['schedules'],
        'outside_bounds': 'the data-race clause (no engine here decides races of real TBB task graphs; real libtbb is only run in the sampled replays); '
                          'worker counts are not a separate parameter: every worker count induces a subset of the enumerated schedules',
        'stubs': ['shim/tbb/tbb/tbbshim.hpp: functional parallel_reduce semantics (runs folded from a copy of the identity, order-preserving joins), '
                  'parallel_for as ordered chunk execution, concurrent_vector::push_back in task execution order'],
    }
    return finish(prop, tier, seed, 'model_checking', agg, out, bounds, ASSUME_A, t0, nvalid)


# ----------------------------------------------------------------------------- C04 (MPI entry points under the SPMD simulator)
def run_real_mpi(rbin, rec, weights, P, layout, timeout=120):
    arg = 'algo=%s+n=%s+edges=%s+weights=%s+layout=%s' % (rec['algo'], rec['n'], rec['edges'], ','.join(map(str, weights)), layout)
    try:
        r = subprocess.run(['mpiexec', '--allow-run-as-root', '--oversubscribe', '-n', str(P), rbin, arg], stdout=subprocess.PIPE,
                           stderr=subprocess.PIPE, text=True, timeout=timeout)
    except subprocess.TimeoutExpired:
        return {'timeout': True}
    except FileNotFoundError:
        return {'unavailable': True}
    out = [l for l in r.stdout.splitlines() if l.startswith('{')]
    if r.returncode != 0 or not out:
        return {'unavailable': True, 'exit': r.returncode, 'stderr': r.stderr[-400:]}
    return json.loads(out[-1])


def mpi_cases(tier, seed):
    cases = []
    algos = ['signed_mpi', 'fvs_mpi', 'fvs_tbb_mpi', 'iso_mpi', 'iso_tbb_mpi']
    Ps = [1, 2, 3] if tier == 'quick' else [1, 2, 3, 4, 5]
    graphs = [(4, g) for g in iso_classes(4) if dim(4, g) >= 1]
    graphs += [(3, [(0, 1), (0, 2), (1, 2)]), (4, [(0, 1), (1, 2), (2, 3)]), (4, []), (0, [])]
    r = rng(seed)
    for n, g in graphs:
        m = len(g)
        for algo in algos:
            lim = 4 - (1 if 'iso' in algo else 0)
            s = 'all' if m <= lim else ','.join(map(str, sorted(r.sample(range(m), 3 if 'iso' not in algo else 2))))
            for P in Ps:
                layouts = ['same'] if P == 1 else (['same', 'rev'] + (['sym'] if ((m <= 3 and P <= 3) or (P == 2 and m <= 5 and algo == 'signed_mpi')) else []))
                if tier == 'thorough' and P in (2, 3) and m >= 4 and algo == 'signed_mpi':
                    layouts = ['same', 'rev', 'sym']
                for lay in layouts:
                    cases.append('algo=%s P=%d layout=%s n=%d edges=%s sym=%s seed=%d' % (algo, P, lay, n, edges_str(g), s, seed))
    if tier == 'quick':
        # more ranks than signed edges / trees: rank counts 4 and 5 on the two densest 4-vertex graphs (the thorough tier has them on every graph)
        for n, g in graphs:
            if len(g) >= 5:
                for algo in algos:
                    s = ','.join(map(str, sorted(r.sample(range(len(g)), 3 if 'iso' not in algo else 2))))
                    for P in (4, 5):
                        cases.append('algo=%s P=%d layout=%s n=%d edges=%s sym=%s seed=%d' % (algo, P, 'same' if P == 4 else 'rev', n, edges_str(g), s, seed))
    # dense graphs: the per-vertex split of mcb_sva_signed_mpi only runs when a support vector has at least n edges (never on 4 vertices)
    for c in dense_slices('signed_mpi', seed, 3 if tier == 'quick' else 8, 1):
        for P in (2, 3):
            cases.append(c + ' P=%d layout=%s seed=%d' % (P, 'same' if P == 2 else 'rev', seed))
    # wide and shallow: seeded graphs on 6..8 vertices, one symbolic weight, rank counts 2..5 in turn
    q = tier == 'quick'
    for algo in algos:
        for i, c in enumerate(random_slices(algo, seed, 16 if q else 80, 1, nmin=6, nmax=8)):
            P = (2, 3, 4, 5)[i % 4]
            cases.append(c + ' P=%d layout=%s seed=%d' % (P, ('same', 'rev')[(i // 4) % 2], seed))
    for i, c in enumerate(dense_slices('signed_mpi', seed, 16 if q else 64, 1, ns=(6, 7))):
        P = (4, 3, 2, 5)[i % 4]
        cases.append(c + ' P=%d layout=%s seed=%d' % (P, ('same', 'rev')[(i // 4) % 2], seed))
    if tier == 'thorough':
        for f, ns in [('K33', 2), ('K5', 2)]:
            for algo in algos:
                for P in (2, 3, 5):
                    cases += slice_cases(algo, f, ns, seed, variants=1, extra=' P=%d layout=rev seed=%d' % (P, seed))
        # denser 5-vertex graphs (signed-edge slicing with 3..4 signed edges per phase) and K7 with 4 ranks (vertex split with remainder 3)
        for c in random_slices('signed_mpi', seed, 8, 2, nmin=5, nmax=5, wmax=9):
            for P in (2, 3):
                cases.append(c + ' P=%d layout=same seed=%d' % (P, seed))
        n7, e7 = family('K7')
        r7 = rng(seed + 77)
        for v in range(3):
            symidx = sorted(r7.sample(range(len(e7)), 2))
            fixed = [r7.randint(1, 9) for _ in e7]
            cases.append('algo=signed_mpi n=7 edges=%s sym=%s fixed=%s P=4 layout=same seed=%d fam=K7' % (
                edges_str(norm_edges(e7)), ','.join(map(str, symidx)), ','.join(map(str, fixed)), seed))
    return cases


def C04(tier, seed):
    prop = 'C04'
    t0 = time.time()
    h, r_mcb, r_mpi = build_many([('harness/h_mpi.cpp', 'symx_mpi'), ('replay/r_mcb.cpp', 'real'), ('replay/r_mpi.cpp', 'real_mpi')])
    cases = mpi_cases(tier, seed)
    agg = Agg([prop + ':'])
    out = Outcome(prop)
    wcases = [c for c in cases if 'n=4' in c and 'P=2' in c][:8]
    ws, _ = run_harness(h, wcases, prop + '-witness', timeout=300, witness=True)
    if ws.get('witness_hits', 0) <= 0:
        out.fault = 'witness twin was not violated'
    leaves = []
    layouts_seen = set()
    stats = {'not_achieved': 0, 'collectives': 0}

    def keep(rec):
        if rec.get('obl'):
            return  # leaves with a violated obligation go to the counterexample replay, not to translation validation
        if 'layouts' in rec:
            layouts_seen.add((rec['P'], rec['layouts']))
            stats['not_achieved'] += int(rec.get('layout_not_achieved', 0))
            stats['collectives'] += int(rec.get('collectives', 0))
        if 'ret' in rec and (rec['path'] % 5 == 0 or rec['depth'] == 0) and len(leaves) < 60000:
            leaves.append(rec)
    s, log = run_harness(h, cases, prop + '-' + tier, timeout=1200 if tier == 'quick' else 3400)
    agg.add_summary(s)
    agg.witness_hits = ws.get('witness_hits', 0)
    agg.add_log(log, keep)
    if agg.leaves == 0 or not agg.obl:
        out.fault = 'no leaf reached an obligation of C04'
    nvalid = 0
    real_mpi = {'runs': 0, 'available': True}
    seqmap = {'signed_mpi': 'signed', 'fvs_mpi': 'fvs', 'fvs_tbb_mpi': 'fvs', 'iso_mpi': 'iso', 'iso_tbb_mpi': 'iso'}
    if not out.fault:
        r = rng(seed)
        r.shuffle(leaves)
        lines, meta = [], []
        for rec in leaves[:(48 if tier == 'quick' else 1500)]:
            weights, den = instance_weights(rec, rec['model'])
            if max(weights + [0]) > 2 ** 40:
                continue
            lines.append(replay_line(rec, weights, 'double', algo=seqmap[rec['algo']]))
            meta.append((rec, den, weights))
        for (rec, den, weights), o in zip(meta, run_replayer_batch(r_mcb, lines)):
            if o.get('crashed') or o['N'] != int(rec['N']) or fractions.Fraction(o['ret']) != parse_q(rec['ret']) * den:
                out.fault = 'translation validation: sequential real build disagrees with simulated rank 0 on %s model %s: %s' % (rec['case'], rec['model'], json.dumps(o)[:300])
                break
            nvalid += 1
        # the same inputs on the REAL boost::mpi runtime (mpiexec), a handful per run
        for rec, den, weights in meta[:(6 if tier == 'quick' else 40)]:
            if out.fault:
                break
            o = run_real_mpi(r_mpi, rec, weights, int(rec['P']), 'rev' if rec['layout'] != 'same' else 'same')
            if o.get('unavailable'):
                real_mpi['available'] = False
                real_mpi['why'] = o
                break
            real_mpi['runs'] += 1
            if o.get('timeout') or o['N'] != o['dim'] or not o['all_simple'] or o['rank'] != o['N'] or o['ret'] != o['sum'] or o['sum'] != o['opt'] or o['others_emitted']:
                out.fault = 'real boost::mpi run violates C04 where the symbolic leaf did not: %s weights %s -> %s' % (rec['case'], weights, o)
    if not out.fault and (agg.violated or agg.crashes):
        items = agg.violated[:12]
        if agg.crashes and not items:
            out.fault = 'crash in MPI harness: %s' % json.dumps(agg.crashes[0])[:300]
        for idx, (rec, obl) in enumerate(items):
            weights, _ = instance_weights(rec, obl.get('model') or rec['model'])
            P = int(rec['P'])
            confirmed = None
            # 1. real boost::mpi with descending addresses on ranks != 0
            for lay in ('rev', 'same'):
                o = run_real_mpi(r_mpi, rec, weights, P, lay)
                if o.get('unavailable'):
                    break
                if o.get('timeout') or o['N'] != o['dim'] or not o['all_simple'] or o['rank'] != o['N'] or o['ret'] != o['sum'] or o['sum'] != o['opt'] or o['others_emitted']:
                    confirmed = ('replay/r_mpi.cpp under mpiexec -n %d layout=%s' % (P, lay), o)
                    break
            if confirmed is None:
                # 2. the same simulator with concrete weights and the recorded layout choice (stated in the replay file)
                # (the achieved address order depends on the allocation history, which differs between the symbolic and the concrete run: the other
                # dictated layouts and the path's own model are tried as well)
                wsets = [weights]
                try:
                    w2, _ = instance_weights(rec, rec['model'])
                    if w2 != weights:
                        wsets.append(w2)
                except Exception:
                    pass
                lays = [rec['layout']] + [l for l in ('rev', 'same') if l != rec['layout']] + (['sym'] if P <= 3 and rec['layout'] != 'sym' else [])
                redo = ['algo=%s P=%s layout=%s n=%s edges=%s sym=none fixed=%s seed=%d' % (rec['algo'], P, lay, rec['n'], rec['edges'], ','.join(map(str, ws)), seed)
                        for ws in wsets for lay in lays]
                s2, log2 = run_harness(h, redo, prop + '-confirm', timeout=300)
                a2 = Agg([prop + ':'])
                a2.add_log(log2)
                if a2.violated:
                    confirmed = ('harness/h_mpi.cpp under the SPMD simulator with concrete weights (layout-dependent; layouts %s)' % a2.violated[0][0].get('layouts'), {'case': redo[0]})
            if confirmed is None:
                out.fault = 'C04 counterexample did not reproduce (real MPI nor simulator with concrete weights): %s weights %s' % (rec['case'], weights)
                break
            rp = os.path.join(cex_dir(), 'C04-replay-%d.json' % idx)
            json.dump({'property': prop, 'replayer': confirmed[0], 'observed': confirmed[1], 'case': rec['case'], 'weights': weights, 'layouts': rec.get('layouts'),
                       'obligation': obl['name']}, open(rp, 'w'), indent=1)
            key = '%s/P=%s/%s' % (rec['algo'], rec['P'], rec['edges'])
            kf = finding_matches(prop, key)
            if kf:
                out.n_known += 1
                msg = 'KNOWN-FINDING: property=C04 %s' % kf['text']
                if msg not in out.known_lines:
                    out.known_lines.append(msg)
            else:
                out.n_confirmed += 1
                out.violation_lines.append('VIOLATION property=C04 replay=%s' % rp)
    bounds = {
        'functions_encoded': ['parmcb::mcb_sva_signed_mpi (find_shortest_odd_cycle_mpi)', 'mcb_sva_fvs_trees_mpi', 'mcb_sva_fvs_trees_tbb_mpi',
                              'mcb_sva_iso_trees_mpi', 'mcb_sva_iso_trees_tbb_mpi (_mcb_sva_trees_mpi)', 'SerializableMinOddCycleMinOp'],
        'bounds': 'ranks P in %s as coroutines of one process; weights symbolic; each rank has its own graph copy whose edge address order is the same, '
                  'reversed or a symbolic choice among permutations (all m! for m<=4); fold order of commutative reduces symbolic for the first two '
                  'reduces of a path; graphs: 4-vertex graphs with a cycle (quick: one per isomorphism class, m<=4 fully symbolic), small forests, empty graph'
                  % ([1, 2, 3] if tier == 'quick' else [1, 2, 3, 4, 5]),
        'ranks': [1, 2, 3] if tier == 'quick' else [1, 2, 3, 4, 5],
        'layouts': len(layouts_seen), 'layout_requests_not_exactly_achieved': stats['not_achieved'], 'collectives_completed': stats['collectives'],
        'real_boost_mpi_replays': real_mpi,
        'outside_bounds': 'serialize() members (objects are passed by value in the simulator; exercised only by the real-MPI replays); behaviour of a '
                          'particular MPI runtime; more ranks or graphs than listed',
        'stubs': ['shim/mpi/boost/mpi/mpisim.hpp: communicator, broadcast, reduce, scatter, timer, environment; collectives rendezvous all ranks at the same '
                  '(sequence number, kind, root), otherwise deadlock is reported', 'shim/tbb scheduler shim in its default schedule'],
    }
    return finish(prop, tier, seed, 'model_checking', agg, out, bounds, ASSUME_A, t0, nvalid)


# ----------------------------------------------------------------------------- C07 (sanitized explorations + CBMC memory-safety of the engine-B units)
def C07(tier, seed):
    import engb
    import concurrent.futures
    prop = 'C07'
    t0 = time.time()
    specs = [('harness/h_exact.cpp', 'symx_asan'), ('harness/h_approx.cpp', 'symx_asan'), ('harness/h_sptree.cpp', 'symx_asan'),
             ('harness/h_coll.cpp', 'symx_asan'), ('harness/h_gf2.cpp', 'symx_asan'), ('harness/h_tbb.cpp', 'symx_asan'),
             ('harness/h_valid.cpp', 'symx_asan'), ('harness/h_topo.cpp', 'symx_asan'),
             ('replay/r_mcb.cpp', 'real_asan'), ('replay/r_misc.cpp', 'real_asan'), ('replay/r_gf2.cpp', 'real_asan')]
    bins = build_many(specs)
    hx, ha, hs, hc, hg, ht, hv, hto, ra_mcb, ra_misc, ra_gf2 = bins
    q = tier == 'quick'
    g4 = [(n, g) for n, g in small_graphs(3) + [(4, g) for g in all_labelled_graphs(4)]]
    lim = 4 if q else 5
    runs = []
    ex_cases = []
    for algo in ('signed', 'fvs', 'iso'):
        for n, g in g4:
            if len(g) <= (lim - (1 if algo == 'iso' and not q else 0)):
                ex_cases.append('algo=%s n=%d edges=%s sym=all' % (algo, n, edges_str(g)))
        ex_cases += slice_cases(algo, 'K33', 2, seed) + slice_cases(algo, 'K5', 2, seed) + slice_cases(algo, 'grid3x3', 2, seed)
        ex_cases.append('algo=%s n=4 edges=0-1,0-2,0-3,1-2,1-3,2-3 sym=0,2,5' % algo)
    for algo in ('signed', 'fvs', 'iso'):
        # wide and shallow under the sanitizers too: seeded 6..8-vertex graphs with one symbolic weight
        ex_cases += random_slices(algo, seed, 40 if q else 160, 1, nmin=6, nmax=8) + dense_slices(algo, seed, 8 if q else 32, 1, ns=(6, 7))
    runs.append(('exact', hx, ex_cases))
    ap_cases = []
    for algo in ('approx_signed', 'approx_fvs', 'approx_iso'):
        for k in (0, 1, 2, 3):
            for n, g in g4:
                if len(g) <= lim and (k > 0 or len(g) in (0, 3, 5)):
                    ap_cases.append('algo=%s k=%d n=%d edges=%s sym=all' % (algo, k, n, edges_str(g)))
            if k:
                ap_cases += slice_cases(algo, 'C5', 5 if not q else 3, seed, extra=' k=%d' % k) + slice_cases(algo, 'petersen', 2, seed, extra=' k=%d' % k)
    for k in (1, 2):
        for n, g in g4:
            if len(g) <= lim:
                ap_cases.append('algo=spanner k=%d n=%d edges=%s sym=all' % (k, n, edges_str(g)))
    for algo in ('approx_signed', 'approx_fvs', 'approx_iso'):
        for k in (1, 2, 3):
            ap_cases += random_slices(algo, seed + k, 16 if q else 64, 1, nmin=6, nmax=9, extra=' k=%d' % k)
    runs.append(('approx', ha, ap_cases))
    runs.append(('sptree', hs, ['n=%d edges=%s sym=all' % (n, edges_str(g)) for n, g in g4 if len(g) <= lim] +
                 ['n=9 edges=%s sym=none' % edges_str(norm_edges(family('grid3x3')[1])), 'n=6 edges=%s sym=0,4' % edges_str(norm_edges(family('K33')[1]))]))
    runs.append(('coll', hc, ['n=%d edges=%s sym=all' % (n, edges_str(g)) for n, g in g4 if len(g) <= lim - 1] +
                 ['n=6 edges=%s sym=0,4' % edges_str(norm_edges(family('K33')[1]))]))
    runs.append(('gf2', hg, ['L=2 steps=1 R=2', 'L=2 steps=1 R=2 op=13', 'L=1 steps=2 R=2'] + ([] if q else ['L=3 steps=1 R=2 op=4', 'L=3 steps=1 R=2 op=13'])))
    runs.append(('tbb', ht, [c for c in tbb_cases('quick', seed) if 'sym=all' in c and 'n=4' in c][:(24 if q else 60)]))
    runs.append(('valid', hv, ['n=2 maxmult=2', 'n=3 maxmult=1'] + ([] if q else ['n=3 maxmult=2'])))
    runs.append(('topo', hto, ['what=fvs n=4 orders=3', 'what=findex n=4 orders=3', 'what=fvs n=5 orders=1', 'what=findex n=5 orders=1', 'what=findex n=0', 'what=fvs n=0']))
    agg = Agg(['C07:'])
    out = Outcome(prop)
    env = {'SYMX_LSAN': '1', 'ASAN_OPTIONS': 'detect_leaks=1:leak_check_at_exit=0:abort_on_error=1:handle_abort=0:detect_stack_use_after_return=0'}
    crash_src = []
    budget = 1200 if q else 3300

    def one(name, h, cases):
        return name, run_harness(h, cases, '%s-%s-%s' % (prop, tier, name), budget, jobs=6, env=env)
    # engine-B units: CBMC bounds/pointer/overflow/shift checks for all inputs within their bounds
    cb = {}

    def cbmc_units():
        gen = engb.lower_unit('ir2c/wrap/w_c18.cpp', ['w_ext_gcd', 'w_is_prime'], 'u_c18')
        files = [gen, os.path.join(VERIF, 'ir2c/models/common.c'), os.path.join(VERIF, 'ir2c/harness/h_c18.c')]
        d = engb.diff_build(gen, 'ir2c/wrap/w_c18.cpp', 'ir2c/harness/d_c18.cpp', ['ir2c/models/common.c'], 'u_c18')
        r = subprocess.run([d, str(seed)], stdout=subprocess.PIPE, stderr=subprocess.PIPE, text=True)
        cb['diff'] = json.loads(r.stdout.strip().splitlines()[-1]) if r.stdout.strip() else {'mismatches': -1}
        bound = 64 if q else 128
        cb['w'] = engb.cbmc(files, 'harness_gcd', 8, defines=['BOUND=8', 'WITNESS'], timeout=300, trace=False)
        cb['gcd'] = engb.cbmc(files, 'harness_gcd', 11 if q else 13, defines=['BOUND=%d' % bound], timeout=budget, trace=False)
        cb['prime'] = engb.cbmc(files, 'harness_prime', bound + 2, defines=['BOUND=%d' % bound], timeout=budget, trace=False)
        gen20 = engb.lower_unit('ir2c/wrap/w_c20.cpp', ['w_set_concurrency'], 'u_c20')
        f20 = [gen20, os.path.join(VERIF, 'ir2c/models/common.c'), os.path.join(VERIF, 'ir2c/models/tbb_gc.c'), os.path.join(VERIF, 'ir2c/harness/h_c20.c')]
        cb['c20'] = engb.cbmc(f20, 'harness', 5, defines=['CALLS=3'], timeout=600, trace=False)
    with concurrent.futures.ThreadPoolExecutor(max_workers=4) as ex:
        fcb = ex.submit(cbmc_units)
        futs = [ex.submit(one, *r) for r in runs]
        for f in futs:
            name, (s, log) = f.result()
            agg.add_summary(s)
            before = len(agg.crashes)
            agg.add_log(log)
            crash_src += [name] * (len(agg.crashes) - before)
            for rec, obl in agg.violated:
                rec.setdefault('_src', name)
        fcb.result()
    if agg.leaves == 0:
        out.fault = 'sanitized harnesses explored nothing'
    if cb['w']['verdict'] != 'failed':
        out.fault = 'witness twin of the fp<int> CBMC harness was not violated'
    if cb['diff'].get('mismatches', 1) != 0:
        out.fault = 'generated C of the fp<int> unit disagrees with the real functions: %s' % cb['diff']
    # replay sanitizer reports on the real (non-symbolic) ASan builds
    if not out.fault:
        items = [(rec, {'name': 'C07:sanitizer-abort(signal %s)' % rec.get('signal')}, src) for rec, src in zip(agg.crashes, crash_src)][:20]
        items += [(rec, obl, rec.get('_src', '')) for rec, obl in agg.violated[:20]]
        for idx, (rec, obl, src) in enumerate(items):
            line, rbin = None, None
            try:
                if src in ('exact', 'approx', 'tbb') and rec.get('algo') and rec.get('algo') != 'spanner':
                    weights, _ = instance_weights(rec, obl.get('model') or rec['model'])
                    line, rbin = replay_line(rec, weights, 'double'), ra_mcb
                elif src in ('sptree', 'coll'):
                    weights, _ = instance_weights(rec, obl.get('model') or rec['model'])
                    line, rbin = 'what=%s n=%s edges=%s weights=%s' % (src, rec['n'], rec['edges'], ','.join(map(str, weights))), ra_misc
                elif src == 'gf2':
                    crumb = rec.get('crumb', '')
                    script = rec.get('script') or crumb.split(' ## ')[0]
                    mdl = rec.get('model', {})
                    if ' ## ' in crumb:
                        try:
                            mdl = json.loads(crumb.split(' ## ')[-1])
                        except Exception:
                            pass
                    line, rbin = _gf2_concretise(script, mdl), ra_gf2
                elif src == 'topo':
                    mdl = rec.get('model', {})
                    es = [k[2:].replace('_', '-') for k, v in mdl.items() if k.startswith('e_') and v == 'true']
                    c = parse_case(rec['case'])
                    line, rbin = 'what=%s n=%s edges=%s' % (c['what'], c['n'], ','.join(es) if es else '-'), ra_misc
            except Exception as ex:
                out.fault = 'cannot concretise sanitizer report from %s: %s' % (src, ex)
                break
            if line is None:
                out.fault = 'sanitizer report in harness %s cannot be replayed on a real build: %s' % (src, json.dumps(rec)[:300])
                break
            r = subprocess.run([rbin], input=line + '\n', stdout=subprocess.PIPE, stderr=subprocess.PIPE, text=True, timeout=120,
                               env=dict(os.environ, ASAN_OPTIONS='detect_leaks=1:abort_on_error=0', UBSAN_OPTIONS='halt_on_error=1:print_stacktrace=1'))
            reproduced = r.returncode != 0 or 'ERROR: AddressSanitizer' in r.stderr or 'runtime error' in r.stderr or 'LeakSanitizer' in r.stderr
            if not reproduced:
                out.fault = 'sanitizer report from harness %s did not reproduce on the real sanitized build: %s' % (src, line)
                break
            rp = os.path.join(cex_dir(), 'C07-replay-%d.json' % idx)
            json.dump({'property': prop, 'replayer': os.path.basename(rbin) + ' (ASan+UBSan+LSan build of the real code)', 'line': line, 'harness': src,
                       'report': (r.stderr or '')[:1500], 'obligation': obl['name']}, open(rp, 'w'), indent=1)
            key = '%s/%s' % (src, rec.get('algo') or rec.get('history') or rec.get('case', ''))
            kf = finding_matches(prop, key)
            if kf:
                out.n_known += 1
                out.known_lines.append('KNOWN-FINDING: property=C07 %s' % kf['text'])
            else:
                out.n_confirmed += 1
                out.violation_lines.append('VIOLATION property=C07 replay=%s' % rp)
        for nm in ('gcd', 'prime', 'c20'):
            if not out.fault and cb[nm]['verdict'] == 'failed':
                safety = [p for p in cb[nm]['failed'] if not p[0].startswith('harness')]
                if safety:
                    rp = os.path.join(cex_dir(), 'C07-cbmc-%s.json' % nm)
                    json.dump({'property': prop, 'cbmc': cb[nm]}, open(rp, 'w'), indent=1, default=str)
                    out.n_confirmed += 1
                    out.violation_lines.append('VIOLATION property=C07 replay=%s' % rp)
    agg.obl['C07:no-sanitizer-report-on-any-explored-path'] = [agg.leaves + len(agg.crashes), agg.leaves]
    for nm in ('gcd', 'prime', 'c20'):
        for p in cb[nm]['props']:
            if not p[0].startswith('harness.assertion'):
                st = agg.obl.setdefault('C07:cbmc:%s:%s' % (nm, p[0].split('.')[-2] if '.' in p[0] else p[0]), [0, 0])
                st[0] += 1
                st[1] += 1 if p[2] == 'SUCCESS' else 0
    bounds = {
        'functions_encoded': ['every entry point reached by the harnesses of C01-C06, C12-C17 (exact, approximate, TBB variants under the shim, SPTree, '
                              'cycle builders, greedy_fvs, ForestIndex, SpVecGF2 incl. add(), validators)', 'fp<int>::ext_gcd, primes<int>::is_prime, '
                              'set_global_tbb_concurrency via engine B (CBMC pointer/bounds/overflow/shift checks)'],
        'bounds': 'the paths are those of the solver: each harness is rebuilt with -fsanitize=address,undefined (+ _GLIBCXX_SANITIZE_VECTOR) and explores the reduced '
                  'case set (all labelled graphs on <=4 vertices with m<=%d fully symbolic, slices of K33/K5/grid/Petersen); AddressSanitizer/UBSan abort or a '
                  'LeakSanitizer report at the end of a path is a violation; approximate results are dereferenced through the weight map of the caller after the '
                  'call returned; CBMC: |a|,|b|<%d, p<%d with unwinding assertions' % (lim, 64 if q else 128, 64 if q else 128),
        'outside_bounds': 'real multi-threaded execution (TBB threads, MPI processes); the DIMACS reader; uninitialised reads (no MSan build of z3); '
                          'signed overflow of int WEIGHTS is represented by the arithmetic-on-INF monitor only',
        'cbmc': {k: {kk: cb[k].get(kk) for kk in ('verdict', 'unwind', 'defines', 'backend', 'wall_s', 'sat_vars', 'sat_clauses')} for k in ('gcd', 'prime', 'c20')},
        'cbmc_differential_test': cb['diff'],
        'sanitized_harness_runs': [r[0] for r in runs],
    }
    assume = ASSUME_A + ['AddressSanitizer/UBSan/LeakSanitizer (gcc 12) are the per-path monitors; a path without report is taken as free of the '
                         'monitored UB classes on that path']
    return finish(prop, tier, seed, 'model_checking', agg, out, bounds, assume, t0, cb['diff'].get('compared', 0))


# ----------------------------------------------------------------------------- C09 (inexact floating-point weights, abstract rounding model)
def _py_simple_cycles(n, edges):
    adj = [[] for _ in range(n)]
    for i, (a, b) in enumerate(edges):
        adj[a].append((b, i))
        adj[b].append((a, i))
    out = set()

    def dfs(start, v, mask, onpath):
        for w, e in adj[v]:
            if mask >> e & 1:
                continue
            if w == start and bin(mask).count('1') >= 2:
                out.add(mask | (1 << e))
                continue
            if w < start or w in onpath:
                continue
            onpath.add(w)
            dfs(start, w, mask | (1 << e), onpath)
            onpath.discard(w)
    for s in range(n):
        dfs(s, s, 0, {s})
    return sorted(out)


def _gf2_rank(rows):
    rows = list(rows)
    rank = 0
    for bit in range(64):
        piv = next((i for i in range(rank, len(rows)) if rows[i] >> bit & 1), None)
        if piv is None:
            continue
        rows[rank], rows[piv] = rows[piv], rows[rank]
        for i in range(len(rows)):
            if i != rank and rows[i] >> bit & 1:
                rows[i] ^= rows[rank]
        rank += 1
    return rank


def exact_mcb_weight(n, edges, w):
    cs = sorted((sum(w[e] for e in range(len(edges)) if m >> e & 1), m) for m in _py_simple_cycles(n, edges))
    rows, total = [], fractions.Fraction(0)
    d = dim(n, edges)
    for wt, m in cs:
        if len(rows) == d:
            break
        if _gf2_rank(rows + [m]) == len(rows) + 1:
            rows.append(m)
            total += wt
    return total


def c09_real_violation(o, n, edges, wd):
    """exact-rational evaluation of C09 on a real double run (o = r_mcb output, wd = list of python floats)"""
    if o.get('crashed') or o['exception']:
        return 'crash/exception'
    w = [fractions.Fraction(x) for x in wd]
    if o['N'] != o['dim'] or o['foreign_edges'] or not o['all_simple'] or o['rank'] != o['N']:
        return 'invalid basis (N=%s dim=%s simple=%s rank=%s)' % (o['N'], o['dim'], o['all_simple'], o['rank'])
    s = sum((w[e] for cyc in o['cycles'] for e in cyc), fractions.Fraction(0))
    ret = fractions.Fraction(o['ret'])
    tol = fractions.Fraction(1, 10 ** 9)
    if abs(ret - s) > tol * s:
        return 'returned %s but emitted cycles weigh %s' % (o['ret'], float(s))
    opt = exact_mcb_weight(n, edges, w)
    if s > (1 + tol) * opt:
        return 'emitted weight %s exceeds the optimum %s' % (float(s), float(opt))
    return None


def rnd_cases(tier, seed):
    cases = []
    r = rng(seed)
    decs = [0.1, 0.2, 0.3, 0.4, 0.6, 0.7, 0.9]
    shapes = [(3, [(0, 1), (0, 2), (1, 2)]), (4, [(0, 1), (1, 2), (2, 3), (0, 3)]), (4, [(0, 1), (0, 2), (1, 2), (2, 3)])]
    for algo in ('signed', 'fvs', 'iso'):
        for n, g in shapes:
            cases.append('algo=%s n=%d edges=%s sym=all' % (algo, n, edges_str(g)))
        named = [(4, [(0, 1), (0, 2), (0, 3), (1, 2), (1, 3)]),                        # K4 minus an edge
                 (6, norm_edges(family('theta3_3')[1]) if False else [(0, 2), (2, 3), (3, 1), (0, 4), (4, 5), (5, 1)]),  # two parallel 3-paths
                 (5, norm_edges(family('theta2_3')[1]) if False else [(0, 2), (2, 1), (0, 3), (3, 4), (4, 1)]),          # theta(2,3)
                 (5, [(0, 1), (0, 2), (0, 3), (1, 3), (1, 4), (2, 4)])]                                                    # the 5-vertex 6-edge shape of DESIGN §4
        reps = 2 if tier == 'quick' else 5
        for n, g in named:
            m = len(g)
            for k in range(reps):
                nsym = 2
                if algo == 'iso' and m >= 6:
                    nsym -= 1
                symidx = sorted(r.sample(range(m), nsym))
                fx = [r.choice(decs) for _ in range(m)]
                cases.append('algo=%s n=%d edges=%s sym=%s fixedd=%s' % (algo, n, edges_str(g), ','.join(map(str, symidx)), ','.join(map(str, fx))))
        # the concrete instance of DESIGN §4 (no symbolic weight: the model degenerates to the machine's own additions)
        cases.append('algo=%s n=5 edges=0-1,0-2,0-3,1-3,1-4,2-4 sym=none fixedd=0.9,0.4,0.1,0.1,0.6,0.4' % algo)
        if tier == 'thorough':
            for g in iso_classes(5, max_m=6, min_m=5):
                if dim(5, g) < 1:
                    continue
                m = len(g)
                for k in range(2):
                    symidx = sorted(r.sample(range(m), 2 if algo != 'iso' else 1))
                    fx = [r.choice(decs) for _ in range(m)]
                    cases.append('algo=%s n=5 edges=%s sym=%s fixedd=%s' % (algo, edges_str(g), ','.join(map(str, symidx)), ','.join(map(str, fx))))
    return cases


def C09(tier, seed):
    prop = 'C09'
    t0 = time.time()
    h, r_mcb = build_many([('harness/h_rnd.cpp', 'symx'), ('replay/r_mcb.cpp', 'real')])
    cases = rnd_cases(tier, seed)
    agg = Agg([prop + ':'])
    out = Outcome(prop)
    ws, _ = run_harness(h, [c for c in cases if 'sym=all' in c][:4], prop + '-witness', timeout=300, witness=True)
    if ws.get('witness_hits', 0) <= 0:
        out.fault = 'witness twin was not violated'
    leaves = []

    def keep(rec):
        if rec.get('obl'):
            return  # leaves with a violated obligation go to the counterexample replay, not to translation validation
        if 'cycles' in rec and len(leaves) < 40000 and rec['path'] % 3 == 0:
            leaves.append(rec)
    s, log = run_harness(h, cases, prop + '-' + tier, timeout=1200 if tier == 'quick' else 3400)
    agg.add_summary(s)
    agg.witness_hits = ws.get('witness_hits', 0)
    agg.add_log(log, keep)
    if agg.leaves == 0 or not agg.obl:
        out.fault = 'no leaf reached an obligation of C09'

    def concrete_weights(rec, model):
        es = rec['edges'].split(',')
        m = len(es)
        symset = set(range(m)) if rec['sym'] == 'all' else (set() if rec['sym'] in ('none', '') else set(int(x) for x in rec['sym'].split(',')))
        fx = [float(x) for x in rec['fixedd'].split(',')] if rec.get('fixedd') else []
        base = []
        for i in range(m):
            base.append(float(parse_q(model['w%d' % i])) if i in symset else (fx[i] if i < len(fx) else 1.0))
        return base, symset

    def edges_of(rec):
        return [tuple(map(int, e.split('-'))) for e in rec['edges'].split(',')] if rec['edges'] not in ('-', '') else []
    nvalid = 0
    if not out.fault:
        # translation validation: leaf models rounded to doubles, real double build, exact-rational evaluation of the property.
        # A real violation on a leaf that discharged every obligation would mean the abstract model is unsound.
        r = rng(seed)
        r.shuffle(leaves)
        lines, meta = [], []
        for rec in leaves[:(60 if tier == 'quick' else 1500)]:
            wd, _ = concrete_weights(rec, rec['model'])
            if min(wd + [1.0]) < 1e-3 or max(wd + [1.0]) > 1e3:
                continue
            lines.append('algo=%s n=%s edges=%s weights=%s type=double' % (rec['algo'], rec['n'], rec['edges'], ','.join(repr(x) for x in wd)))
            meta.append((rec, wd))
        for (rec, wd), o in zip(meta, run_replayer_batch(r_mcb, lines)):
            if rec.get('obl'):
                continue
            bad = c09_real_violation(o, int(rec['n']), edges_of(rec), wd)
            if bad and rec['algo'] != 'iso':
                out.fault = 'real double run violates C09 (%s) on a leaf model that discharged all obligations: %s weights %s' % (bad, rec['case'], wd)
                break
            nvalid += 1
    undecided = 0
    confirmed_keys = {}
    if not out.fault:
        # abstract counterexamples: concretise (nearest doubles of the model, then 1- and 2-decimal roundings of the symbolic weights), replay on the real build
        by_sig = {}
        for rec, obl in agg.violated:
            by_sig.setdefault((rec['algo'], rec['edges'], rec.get('fixedd', '')), []).append((rec, obl))
        for sig, lst in by_sig.items():
            hit = None
            for rec, obl in lst[:6]:
                base, symset = concrete_weights(rec, obl.get('model') or rec['model'])
                cands = [base]
                for nd in (1, 2, 3):
                    c2 = [round(x, nd) if i in symset else x for i, x in enumerate(base)]
                    if all(x > 0 for x in c2) and c2 not in cands:
                        cands.append(c2)
                for wd in cands:
                    line = 'algo=%s n=%s edges=%s weights=%s type=double' % (rec['algo'], rec['n'], rec['edges'], ','.join(repr(x) for x in wd))
                    o = run_replayer(r_mcb, [line])[0]
                    bad = c09_real_violation(o, int(rec['n']), edges_of(rec), wd)
                    if bad:
                        hit = (line, o, bad, rec, obl)
                        break
                if hit:
                    break
            if not hit:
                undecided += len(lst)
                continue
            line, o, bad, rec, obl = hit
            entry = {'signed': 'mcb_sva_signed', 'fvs': 'mcb_sva_fvs_trees', 'iso': 'mcb_sva_iso_trees'}[rec['algo']]
            key = '%s/%s' % (entry, rec['edges'])
            rp = os.path.join(cex_dir(), 'C09-replay-%d.json' % len(confirmed_keys))
            json.dump({'property': prop, 'replayer': 'replay/r_mcb.cpp (real double build; property evaluated in exact rational arithmetic)', 'line': line,
                       'observed': o, 'why': bad, 'key': key}, open(rp, 'w'), indent=1)
            confirmed_keys[key] = rp
            kf = finding_matches(prop, key)
            out.replays.append({'key': key, 'line': line, 'why': bad, 'known': bool(kf)})
            if kf:
                out.n_known += 1
                msg = 'KNOWN-FINDING: property=C09 %s' % kf['text']
                if msg not in out.known_lines:
                    out.known_lines.append(msg)
            else:
                out.n_confirmed += 1
                out.violation_lines.append('VIOLATION property=C09 replay=%s' % rp)
    bounds = {
        'functions_encoded': ['parmcb::mcb_sva_signed', 'mcb_sva_fvs_trees', 'mcb_sva_iso_trees (instantiated with symx::Rnd)'],
        'bounds': 'abstract rounding model in linear real arithmetic: x+y = x+y+eps, |eps| <= 2^-53 (x+y), one eps per distinct operand pair; weights in '
                  '[1e-3,1e3]; triangle, C4, triangle+pendant fully symbolic; K4-e, two parallel 3-paths, theta(2,3) and the 5-vertex 6-edge shape with 2 '
                  'symbolic weights (iso on 6-edge shapes: 1) and seeded one-decimal concrete weights; thorough: more completions and every 5-vertex graph with 5<=m<=6 (2 completions)',
        'undecided': undecided,
        'undecided_note': 'abstract counterexamples whose concretisation (nearest doubles, 1..3-decimal roundings) did not violate the property on the real '
                          'double build; they are neither reported nor claimed as proven (the QF_FP re-posing of DESIGN §6 was not built: z3 FP is out of reach here)',
        'abstract_violations': len(agg.violated),
        'outside_bounds': 'parallel variants (they share the code under test); graphs beyond those listed; full IEEE semantics (subnormals, overflow) excluded by the weight range',
    }
    assume = ASSUME_A[:1] + ['symx::Rnd is a sound over-approximation of round-to-nearest binary64 addition for positive operands in range; what it proves holds for all doubles; '
                             'what it refutes is only reported after a replay on the real double build with the property evaluated in exact rational arithmetic']
    return finish(prop, tier, seed, 'model_checking', agg, out, bounds, assume, t0, nvalid)


# ----------------------------------------------------------------------------- C10 (validators: engine A; reader: engine B)
def _valid_expect(rec, model):
    es = [] if rec['edges'] in ('-', '') else [tuple(map(int, e.split('-'))) for e in rec['edges'].split(',')]
    ws = [parse_q(model.get('w%d' % i, '0')) for i in range(len(es))]
    loops = any(a == b for a, b in es)
    pairs = [tuple(sorted(e)) for e in es]
    multi = len(set(pairs)) != len(pairs)
    return es, ws, loops, multi, any(w <= 0 for w in ws)


def _dimacs_expected(text):
    """independent reference parser for the DIMACS subset of the property: returns (threw, n, [(u, v, w)])"""
    n = 0
    edges = []
    for line in text.split('\n'):
        if not line:
            continue
        if line[0] in 'c#':
            continue
        t = line.split()
        if line[0] == 'p' and len(t) >= 3:
            n = int(t[2])
        elif line[0] in 'ea' and len(t) >= 3:
            u, v = int(t[1]), int(t[2])
            w = float(t[3]) if len(t) >= 4 else 1.0
            if not (1 <= u <= n and 1 <= v <= n):
                return True, n, edges
            edges.append((u - 1, v - 1, w))
    return False, n, edges


def _reader_bad(text, o):
    threw, n, edges = _dimacs_expected(text)
    if o.get('crashed'):
        return True
    got = [(int(a), int(b), float(w)) for a, b, w in o['edges']]
    return o['threw'] != threw or o['n'] != n or got != edges


def check_reader(tier, seed, out):
    """engine B part of C10 (thorough tier): returns a dict for the evidence; sets out.* on violation / fault"""
    import engb
    info = {}
    gen = engb.lower_unit('ir2c/wrap/w_c10.cpp', ['w_read_dimacs'], 'u_c10')
    models = ['ir2c/models/common.c', 'ir2c/models/reader.c']
    files = [gen] + [os.path.join(VERIF, m) for m in models] + [os.path.join(VERIF, 'ir2c/harness/h_c10.c')]
    d = engb.diff_build(gen, 'ir2c/wrap/w_c10.cpp', 'ir2c/harness/d_c10.cpp', models, 'u_c10', libs=['-ltbb'])
    r = subprocess.run([d, str(seed)], stdout=subprocess.PIPE, stderr=subprocess.PIPE, text=True)
    try:
        info['differential'] = json.loads(r.stdout.strip().splitlines()[-1])
    except Exception:
        raise EngineFault('differential driver of the reader unit crashed: ' + r.stderr[-400:])
    if info['differential']['mismatches']:
        out.fault = 'generated C of the reader disagrees with the real reader on complete-line files: %s %s' % (info['differential'], r.stderr[-300:])
        return info
    unwindset = 'f_fgets.0:16,f_strlen.0:16'
    flags = engb.CBMC_FLAGS
    # pointer-overflow checks make symbolic execution of this byte-addressed unit run out of time; they are dropped here (stated)
    engb.CBMC_FLAGS = ['--unwinding-assertions', '--signed-overflow-check', '--undefined-shift-check', '--drop-unused-functions']
    try:
        w = engb.cbmc(files, 'harness', 6, defines=['EDGES=1', 'WITNESS', 'COMMENTS=0', 'WKINDS=1', 'FIXED_N=2'], timeout=2400, trace=False,
                      extra=['--unwindset', unwindset])
        if not any(p[1].strip().endswith('assertion 0') for p in w['failed']):
            out.fault = 'witness twin of the reader harness was not violated'
            return info
        res = engb.cbmc(files, 'harness', 6, defines=['EDGES=1'], timeout=3000, extra=['--unwindset', unwindset])
    finally:
        engb.CBMC_FLAGS = flags
    info['cbmc'] = {k: res.get(k) for k in ('verdict', 'unwind', 'defines', 'backend', 'wall_s', 'sat_vars', 'sat_clauses')}
    info['cbmc']['failed'] = res['failed'][:8]
    info['cbmc_properties'] = len(res['props'])
    if res['verdict'] == 'failed':
        # counterexample file = last assignment to each file_data[i] in the trace
        raw = res.get('raw_full', '')
        data, flen = {}, None
        for m in re.finditer(r'file_data\[(\d+)l?\]=(-?\d+)', raw):
            data[int(m.group(1))] = int(m.group(2)) & 255
        for m in re.finditer(r'file_len=(\d+)', raw):
            flen = int(m.group(1))
        if flen is None:
            out.fault = 'cbmc reports a reader violation but the counterexample file could not be extracted from the trace'
            return info
        text = ''.join(chr(data.get(i, 0)) for i in range(flen))
        rbin = build('replay/r_dimacs.cpp', 'real')
        line = text.replace('\n', '\\n')
        o = run_replayer(rbin, [line])[0]
        info['counterexample_file'] = text
        if not _reader_bad(text, o):
            out.fault = 'cbmc counterexample for the reader did not reproduce on the real reader: %r -> %s' % (text, o)
            return info
        rp = os.path.join(cex_dir(), 'C10-reader-replay-0.json')
        json.dump({'property': 'C10', 'replayer': 'replay/r_dimacs.cpp', 'line': line, 'file': text, 'observed': o,
                   'expected': _dimacs_expected(text), 'cbmc_failed': res['failed'][:8]}, open(rp, 'w'), indent=1)
        key = 'read_dimacs_from_file/' + ('no-final-newline' if not text.endswith('\n') else 'other')
        kf = finding_matches('C10', key)
        if kf:
            out.n_known += 1
            out.known_lines.append('KNOWN-FINDING: property=C10 %s' % kf['text'])
        else:
            out.n_confirmed += 1
            out.violation_lines.append('VIOLATION property=C10 replay=%s' % rp)
    return info


def C10(tier, seed):
    cases = ['n=1 maxmult=2', 'n=2 maxmult=2', 'n=3 maxmult=1'] + ([] if tier == 'quick' else ['n=3 maxmult=2'])

    def tv(leaves, rbin):
        lines, meta = [], []
        for rec in leaves:
            es, ws, loops, multi, nonpos = _valid_expect(rec, rec['model'])
            den = 1
            for w in ws:
                den = den * w.denominator // math.gcd(den, w.denominator)
            lines.append('what=valid n=%s edges=%s weights=%s' % (rec['n'], rec['edges'], ','.join(str(int(w * den)) for w in ws)))
            meta.append((rec, loops, multi, nonpos))
        n = 0
        for (rec, loops, multi, nonpos), o in zip(meta, run_replayer_batch(rbin, lines)):
            if o.get('crashed') or o['has_loops'] != loops or (not loops and o['has_multiple_edges'] != multi) or o['has_non_positive_weights'] != nonpos:
                return n, 'validators on the real double build disagree on %s model %s: %s' % (rec['edges'], rec['model'], o)
            n += 1
        return n, None

    def confirm(agg, rbin, out):
        for idx, (rec, obl) in enumerate(agg.violated[:20]):
            es, ws, loops, multi, nonpos = _valid_expect(rec, obl.get('model') or rec['model'])
            den = 1
            for w in ws:
                den = den * w.denominator // math.gcd(den, w.denominator)
            line = 'what=valid n=%s edges=%s weights=%s' % (rec['n'], rec['edges'], ','.join(str(int(w * den)) for w in ws))
            o = run_replayer(rbin, [line])[0]
            ok = (not o.get('crashed')) and o['has_loops'] == loops and (loops or o['has_multiple_edges'] == multi) and o['has_non_positive_weights'] == nonpos
            if ok:
                out.fault = 'validator counterexample did not reproduce: ' + line
                return
            rp = os.path.join(cex_dir(), 'C10-replay-%d.json' % idx)
            json.dump({'property': 'C10', 'replayer': 'replay/r_misc.cpp', 'line': line, 'observed': o, 'obligation': obl['name']}, open(rp, 'w'), indent=1)
            key = 'validators/' + obl['name']
            kf = finding_matches('C10', key)
            if kf:
                out.n_known += 1
                out.known_lines.append('KNOWN-FINDING: property=C10 %s' % kf['text'])
            else:
                out.n_confirmed += 1
                out.violation_lines.append('VIOLATION property=C10 replay=%s' % rp)
        if agg.crashes and not agg.violated:
            out.fault = 'crash in validators harness: %s' % json.dumps(agg.crashes[0])[:300]
    bounds = {
        'functions_encoded': ['parmcb::has_loops', 'parmcb::has_multiple_edges', 'parmcb::has_non_positive_weights'],
        'bounds': 'validators: every multigraph on <=3 vertices with loops and multiplicity <=2 (n=3: <=1; thorough 2), weights symbolic reals of any sign',
        'reader_clause': 'NOT decided by this check: read_dimacs_from_file<RecGraph> is lowered and translated (ir2c/wrap/w_c10.cpp, models/reader.c, '
                         'harness/h_c10.c) but cbmc gave no verdict within the budget (see DESIGN.md); the reader clause of C10 is outside the claim',
        'outside_bounds': 'the DIMACS reader; larger multigraphs',
    }
    reader_info = {}
    if tier == 'thorough':
        def confirm_with_reader(agg, rbin, out):
            confirm(agg, rbin, out)
        bounds['reader_clause'] = 'thorough tier: read_dimacs_from_file<RecGraph> lowered from clang IR and checked by cbmc against a bounded grammar (see reader)'
    def extra(agg):
        return {'reader': reader_info}
    rc_holder = {}
    if tier == 'thorough':
        # the engine-B part runs first; its outcome is merged into the validators' outcome below
        pre = Outcome('C10')
        reader_info.update(check_reader(tier, seed, pre))
        rc_holder['pre'] = pre
    orig_finish = globals()['finish']

    def finish_merged(prop, tier_, seed_, level, agg, out, cov, assumptions, t0, nvalid):
        pre = rc_holder.get('pre')
        if pre is not None:
            out.known_lines += pre.known_lines
            out.violation_lines += pre.violation_lines
            out.n_confirmed += pre.n_confirmed
            out.n_known += pre.n_known
            if pre.fault and not out.fault:
                out.fault = pre.fault
            if 'cbmc' in reader_info:
                agg.obl['C10:reader:cbmc-harness-assertions'] = [reader_info.get('cbmc_properties', 1), reader_info.get('cbmc_properties', 1) - len(reader_info['cbmc'].get('failed', []))]
        return orig_finish(prop, tier_, seed_, level, agg, out, cov, assumptions, t0, nvalid)
    globals()['finish'] = finish_merged
    try:
        return run_symx_check('C10', tier, seed, 'harness/h_valid.cpp', cases, 600, tv, confirm, bounds, witness_pick=lambda cs: ['n=2 maxmult=2'], keep_every=3,
                              extra_cov=extra)
    finally:
        globals()['finish'] = orig_finish
