# Per-property checks.  Each function returns the process exit status (0 ok, 1 violation, 2 engine fault).
import json
import os
import sys
import time

from vlib import *  # noqa
from mcbcheck import *  # noqa

ASSUME_A = [
    'engine A (symx): real parmcb templates instantiated with a z3-backed weight type; exploration by fork at every '
    'solver-feasible comparison outcome; a leaf is one path condition (PC) over the symbolic weights',
    'weights are positive reals (exact arithmetic): stands for double/int weights whose sums are exactly representable; '
    'numeric_limits<W>::max() is a symbolic INF with INF > 4*sum(w)+1',
    'topologies are enumerated (not symbolic): the verdict ranges over every weight assignment of each listed topology',
    'TBB is replaced by the scheduler shim (shim/tbb) in its default one-chunk schedule unless stated otherwise',
    'trusted: z3 4.8.12 (QF_LRA + booleans), matroid single-exchange optimality criterion, the oracles in symx/oracle.hpp',
]


def slice_cases(algo, name, nsym, seed, variants=1, extra=''):
    n, es = family(name)
    es = norm_edges(es)
    m = len(es)
    out = []
    r = rng(hash((seed, name, nsym, algo)) & 0xffffffff)
    for v in range(variants):
        symidx = sorted(r.sample(range(m), min(nsym, m)))
        fixed = [1] * m if v == 0 else [r.choice([1, 1, 2, 3]) for _ in range(m)]
        out.append('algo=%s n=%d edges=%s sym=%s fixed=%s fam=%s%s' % (
            algo, n, edges_str(es), ','.join(map(str, symidx)) if symidx else 'none', ','.join(map(str, fixed)), name, extra))
    return out


def small_graphs(max_n=3):
    out = []
    for n in range(0, max_n + 1):
        for g in all_labelled_graphs(n):
            out.append((n, g))
    return out


def exact_cases(tier, seed, algos=('signed', 'fvs', 'iso')):
    cases = []
    g4 = [(4, g) for g in all_labelled_graphs(4)]
    base = small_graphs(3) + g4
    for algo in algos:
        for n, g in base:
            m = len(g)
            full_ok = True
            if tier == 'quick':
                if m == 6:
                    full_ok = False
                if algo == 'iso' and m >= 5:
                    full_ok = False
            else:
                if algo == 'iso' and m == 6:
                    full_ok = False
            if full_ok:
                cases.append('algo=%s n=%d edges=%s sym=all' % (algo, n, edges_str(g)))
            else:
                r = rng(hash((seed, algo, tuple(g))) & 0xffffffff)
                ks = [3] if tier == 'quick' else [3, 4]
                for k in ks:
                    symidx = sorted(r.sample(range(m), k))
                    fixed = [r.choice([1, 1, 2]) for _ in range(m)]
                    cases.append('algo=%s n=%d edges=%s sym=%s fixed=%s' % (
                        algo, n, edges_str(g), ','.join(map(str, symidx)), ','.join(map(str, fixed))))
        fams = ['K33', 'Q3', 'grid3x3', 'K5', 'two_triangles_bridge', 'tri_plus_tri', 'k4_pendant', 'C5']
        for f in fams:
            cases += slice_cases(algo, f, 2, seed, variants=1 if tier == 'quick' else 2)
        # a forest and an edgeless graph with several components
        cases.append('algo=%s n=5 edges=0-1,1-2,1-3,3-4 sym=all' % algo)
        cases.append('algo=%s n=5 edges=0-1,2-3 sym=all' % algo)
        if tier == 'thorough':
            # G5s: one labelling per isomorphism class, m <= 6 fully symbolic (iso: m <= 5), m = 7 4-symbolic
            for g in iso_classes(5, max_m=7, min_m=5):
                m = len(g)
                if dim(5, g) < 1:
                    continue
                r = rng(hash((seed, algo, tuple(g), 5)) & 0xffffffff)
                perm = list(range(5))
                r.shuffle(perm)
                order = list(range(m))
                r.shuffle(order)
                lim = 5 if algo == 'iso' else 6
                if m <= lim:
                    cases.append('algo=%s n=5 edges=%s sym=all' % (algo, edges_str(g)))
                    cases.append('algo=%s n=5 edges=%s sym=all perm=%s order=%s' % (
                        algo, edges_str(g), ','.join(map(str, perm)), ','.join(map(str, order))))
                else:
                    symidx = sorted(r.sample(range(m), 4 if algo != 'iso' else 3))
                    cases.append('algo=%s n=5 edges=%s sym=%s' % (algo, edges_str(g), ','.join(map(str, symidx))))
            for f in ['K33', 'Q3', 'grid3x3', 'K5', 'K6', 'petersen', 'grid3x4', 'wheel5', 'prism', 'theta2_2_3']:
                cases += slice_cases(algo, f, 3, seed, variants=2)
            for f in ['K33', 'grid3x3', 'K5', 'petersen']:
                cases += slice_cases(algo, f, 4, seed, variants=1)
    return cases


def _exact_predicate(prop):
    def pred(o, rec):
        return c01_violated(o) if prop == 'C01' else c02_violated(o)
    return pred


def check_exact(prop, tier, seed):
    t0 = time.time()
    h, r_mcb = build_many([('harness/h_exact.cpp', 'symx'), ('replay/r_mcb.cpp', 'real')])
    cases = exact_cases(tier, seed)
    budget = 600 if tier == 'quick' else 3300
    agg = Agg([prop + ':'])
    out = Outcome(prop)
    # witness twin: the final assert(false) must be reported violated (assumptions satisfiable, assertion reached)
    wcases = [c for c in cases if 'n=4' in c and 'sym=all' in c][:9]
    ws, _ = run_harness(h, wcases, prop + '-witness', timeout=300, witness=True)
    if ws.get('witness_hits', 0) <= 0:
        out.fault = 'witness twin was not violated: assumptions unsatisfiable or assertion unreachable'
    leaves_for_tv = []

    def keep(rec):
        if 'ret' in rec and (rec['path'] % 5 == 0 or rec['depth'] == 0):
            if len(leaves_for_tv) < 60000:
                leaves_for_tv.append(rec)
    s, log = run_harness(h, cases, prop + '-' + tier, timeout=budget)
    agg.add_summary(s)
    agg.witness_hits = ws.get('witness_hits', 0)
    agg.add_log(log, keep)
    if agg.leaves == 0 or not agg.obl:
        out.fault = 'no leaf reached an obligation of ' + prop
    nvalid = 0
    if not out.fault:
        nvalid, mism = translation_validate(leaves_for_tv, r_mcb, tier, seed)
        if mism:
            out.fault = 'translation validation: ' + mism
    if not out.fault:
        confirm_violations(prop, agg, r_mcb, _exact_predicate(prop),
                           lambda rec, obl: 'mcb_sva_%s/%s' % (rec.get('algo'), rec.get('edges')), out,
                           wtypes=('double', 'int'))
    bounds = {
        'functions_encoded': ['parmcb::mcb_sva_signed', 'parmcb::mcb_sva_fvs_trees', 'parmcb::mcb_sva_iso_trees',
                              '(and everything they instantiate: ForestIndex, SpVecGF2, bidirectional_signed_dijkstra, SPTree, '
                              'lex_dijkstra, greedy_fvs, FVS/ISOCyclesBuilder, ShortestOddCycleLookup)'],
        'bounds': ('quick: every labelled simple graph on <=4 vertices except K4 with ALL weights symbolic (iso: m<=4), '
                   'K4 and iso m=5 as 3-symbolic slices, 2-symbolic slices of K33,Q3,grid3x3,K5 and multi-component graphs; '
                   'thorough: K4 fully symbolic (iso: 3/4-symbolic), one labelling + a seeded relabelling/insertion order of every '
                   '5-vertex graph with 5<=m<=6 fully symbolic (iso m<=5), m=7 4-symbolic, 3/4-symbolic slices up to K6, Petersen, 3x4 grid'),
        'outside_bounds': 'graphs with more than 5 vertices other than the named slices; more than 6 simultaneously symbolic weights; '
                          'weights whose sums are not exactly representable (see C09)',
        'int_and_double': 'symx::Real covers both; the type-specific compile paths are covered by the translation-validation replays '
                          'on the real double and int builds',
    }
    return finish(prop, tier, seed, 'model_checking', agg, out, bounds, ASSUME_A, t0, nvalid)


def C01(tier, seed):
    return check_exact('C01', tier, seed)


def C02(tier, seed):
    return check_exact('C02', tier, seed)
