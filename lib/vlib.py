# Driver-side library for the parmcb verification checks (engine A = symx harnesses, engine B = ir2c+cbmc).
import fractions
import glob
import hashlib
import itertools
import json
import math
import os
import random
import resource
import shutil
import signal
import subprocess
import sys
import time

VERIF = os.path.dirname(os.path.dirname(os.path.abspath(__file__)))
REPO = os.environ.get('PARMCB_REPO', '/repo')
GUARD = 'PARMCB_VERIF'
NCPU = os.cpu_count() or 4

EXIT_OK, EXIT_VIOLATION, EXIT_FAULT = 0, 1, 2


class EngineFault(Exception):
    pass


# ----------------------------------------------------------------------------- hashing / build dirs
def _hash_files(paths):
    h = hashlib.sha256()
    for p in sorted(paths):
        h.update(p.encode())
        try:
            with open(p, 'rb') as f:
                h.update(f.read())
        except OSError:
            h.update(b'<missing>')
    return h.hexdigest()


def repo_files():
    fs = []
    for sub in ('include', 'src'):
        for root, _, names in os.walk(os.path.join(REPO, sub)):
            for n in names:
                fs.append(os.path.join(root, n))
    return fs


def verif_files():
    fs = []
    for sub in ('symx', 'harness', 'shim', 'replay', 'ir2c'):
        for root, _, names in os.walk(os.path.join(VERIF, sub)):
            for n in names:
                if n.endswith(('.hpp', '.cpp', '.h', '.c', '.py')):
                    fs.append(os.path.join(root, n))
    return fs


_tree_hash = None


def tree_hash():
    global _tree_hash
    if _tree_hash is None:
        _tree_hash = _hash_files(repo_files() + verif_files())[:16]
    return _tree_hash


_pruned = False


def build_dir():
    d = os.path.join(VERIF, '.build', tree_hash())
    os.makedirs(d, exist_ok=True)
    # drop stale build dirs: only ones not used for 3 hours (a concurrent run on another tree may be using its own), keep 4 others
    base = os.path.join(VERIF, '.build')
    try:
        os.utime(d, None)
    except OSError:
        pass
    global _pruned
    if _pruned:
        return d
    _pruned = True

    def mtime(p):
        try:
            return os.path.getmtime(p)
        except OSError:      # removed meanwhile by a concurrent builder
            return time.time()
    try:
        others = [os.path.join(base, x) for x in os.listdir(base) if x != tree_hash() and len(x) == 16]
        others.sort(key=mtime, reverse=True)
        for p in others[4:]:
            if time.time() - mtime(p) > 3 * 3600:
                shutil.rmtree(p, ignore_errors=True)
    except OSError:
        pass
    return d


def gen_config(dirpath, tbb=True, mpi=False, logging=False):
    """config.hpp generated from the repository's own config.hpp.in (what CMake's configure_file does)."""
    src = open(os.path.join(REPO, 'include/parmcb/config.hpp.in')).read()
    defs = {'PARMCB_HAVE_BOOST': True, 'PARMCB_HAVE_TBB': tbb, 'PARMCB_HAVE_MPI': mpi, 'PARMCB_LOGGING': logging,
            'PARMCB_INVARIANTS_CHECK': True}
    out = []
    for line in src.splitlines():
        s = line.strip()
        if s.startswith('#cmakedefine'):
            name = s.split()[1]
            out.append('#define %s' % name if defs.get(name) else '/* #undef %s */' % name)
        else:
            out.append(line)
    os.makedirs(os.path.join(dirpath, 'parmcb'), exist_ok=True)
    p = os.path.join(dirpath, 'parmcb', 'config.hpp')
    txt = '\n'.join(out) + '\n'
    if not os.path.exists(p) or open(p).read() != txt:
        open(p, 'w').write(txt)


KINDS = {
    # name: (config kwargs, include dirs (relative to VERIF, before repo), extra flags, libs)
    'symx': (dict(tbb=True, mpi=False), ['shim/tbb'], ['-O1', '-g'], ['-lz3', '-lboost_timer']),
    'symx_mpi': (dict(tbb=True, mpi=True), ['shim/tbb', 'shim/mpi'], ['-O1', '-g'], ['-lz3', '-lboost_timer']),
    'symx_asan': (dict(tbb=True, mpi=False), ['shim/tbb'],
                  ['-O1', '-g', '-fsanitize=address,undefined', '-fno-sanitize-recover=all', '-fno-omit-frame-pointer',
                   '-DSYMX_SANITIZED', '-D_GLIBCXX_SANITIZE_VECTOR'], ['-lz3', '-lboost_timer']),
    'real': (dict(tbb=True, mpi=True), [], ['-O1', '-g'], ['-lboost_timer', '-ltbb']),
    'real_nolib': (dict(tbb=True, mpi=True), [], ['-O1', '-g'], []),
    'real_mpi': (dict(tbb=True, mpi=True), [], ['-O1', '-g'] + subprocess.run(['mpicxx', '--showme:compile'], stdout=subprocess.PIPE, text=True).stdout.split(),
                 ['-lboost_mpi', '-lboost_serialization', '-lboost_timer', '-ltbb'] + subprocess.run(['mpicxx', '--showme:link'], stdout=subprocess.PIPE, text=True).stdout.split()),
    'real_asan': (dict(tbb=True, mpi=True), [],
                  ['-O1', '-g', '-fsanitize=address,undefined', '-fno-sanitize-recover=all', '-fno-omit-frame-pointer', '-D_GLIBCXX_SANITIZE_VECTOR'],
                  ['-lboost_timer', '-ltbb']),
}


def build(src_rel, kind='symx', out_name=None, extra_flags=()):
    """Compile VERIF/src_rel against /repo/include (guard on).  Cached per (repo tree + verif sources) hash."""
    bd = build_dir()
    cfgkw, incs, flags, libs = KINDS[kind]
    cfgdir = os.path.join(bd, 'cfg_' + kind)
    gen_config(cfgdir, **cfgkw)
    name = out_name or (os.path.splitext(os.path.basename(src_rel))[0] + '.' + kind)
    if extra_flags:
        name += '.' + hashlib.sha1(' '.join(extra_flags).encode()).hexdigest()[:6]
    out = os.path.join(bd, name)
    if os.path.exists(out):
        return out
    cmd = ['g++', '-std=c++14', '-D' + GUARD, '-I' + cfgdir] + ['-I' + os.path.join(VERIF, i) for i in incs] + \
          ['-I' + os.path.join(REPO, 'include')] + list(flags) + list(extra_flags) + \
          [os.path.join(VERIF, src_rel), '-o', out + '.tmp%d' % os.getpid()] + list(libs)
    t0 = time.time()
    r = subprocess.run(cmd, stdout=subprocess.PIPE, stderr=subprocess.STDOUT, text=True)
    if r.returncode != 0:
        sys.stderr.write(r.stdout[-6000:])
        raise EngineFault('build failed: %s (%s)' % (src_rel, kind))
    os.replace(out + '.tmp%d' % os.getpid(), out)
    sys.stderr.write('[build] %s (%s) %.1fs\n' % (src_rel, kind, time.time() - t0))
    return out


def build_many(specs):
    """specs: list of (src_rel, kind[, out_name[, extra_flags]]) built in parallel."""
    import concurrent.futures
    with concurrent.futures.ThreadPoolExecutor(max_workers=min(8, len(specs) or 1)) as ex:
        futs = [ex.submit(build, *s) for s in specs]
        return [f.result() for f in futs]


# ----------------------------------------------------------------------------- running harnesses
def logs_dir():
    d = os.path.join(VERIF, 'evidence', 'logs')
    os.makedirs(d, exist_ok=True)
    return d


def cex_dir():
    d = os.path.join(VERIF, 'evidence', 'cex')
    os.makedirs(d, exist_ok=True)
    return d


def _limit_as(gb):
    def f():
        os.setsid()
        if gb:
            try:
                resource.setrlimit(resource.RLIMIT_CORE, (0, 0))
            except Exception:
                pass
    return f


def run_harness(binpath, cases, tag, timeout, jobs=None, max_paths=None, witness=False, env=None, extra_args=()):
    """Runs a symx harness over `cases` (list of strings).  Returns (summary dict, log path).  Raises
    EngineFault on timeout / non-zero exit / solver fault: an unfinished exploration is never success."""
    jobs = jobs or NCPU
    if max_paths is None:
        max_paths = 9000000 if os.environ.get('VERIF_TIER_ACTIVE') == 'thorough' else 2000000
    if os.environ.get('VERIF_BUDGET_CAP'):
        timeout = min(timeout, int(os.environ['VERIF_BUDGET_CAP']))
    cases_path = os.path.join(logs_dir(), tag + '.cases')
    log_path = os.path.join(logs_dir(), tag + '.jsonl')
    with open(cases_path, 'w') as f:
        f.write('\n'.join(cases) + '\n')
    cmd = [binpath, '--cases', cases_path, '--log', log_path, '--jobs', str(jobs), '--cexdir', cex_dir(),
           '--cexprefix', tag, '--max-paths', str(max_paths)] + list(extra_args)
    if witness:
        cmd.append('--witness')
    for old in glob.glob(os.path.join(cex_dir(), tag + '-*.json')):
        os.unlink(old)
    e = dict(os.environ)
    e.setdefault('ASAN_OPTIONS', 'detect_leaks=0:abort_on_error=1:handle_abort=0:allocator_may_return_null=1')
    e.setdefault('UBSAN_OPTIONS', 'halt_on_error=1:abort_on_error=1:print_stacktrace=1')
    if env:
        e.update(env)
    t0 = time.time()
    p = subprocess.Popen(cmd, stdout=subprocess.PIPE, stderr=subprocess.PIPE, text=True, env=e, preexec_fn=_limit_as(0))
    try:
        out, err = p.communicate(timeout=timeout)
    except subprocess.TimeoutExpired:
        try:
            os.killpg(p.pid, signal.SIGKILL)
        except ProcessLookupError:
            pass
        p.wait()
        raise EngineFault('harness %s timed out after %ds (exploration unfinished)' % (tag, timeout))
    finally:
        try:
            os.killpg(p.pid, signal.SIGKILL)  # stragglers
        except (ProcessLookupError, PermissionError):
            pass
    wall = time.time() - t0
    summary = None
    for line in out.splitlines():
        if line.startswith('{"type":"summary"'):
            summary = json.loads(line)
    if summary is None:
        sys.stderr.write(err[-3000:])
        raise EngineFault('harness %s produced no summary (exit %s)' % (tag, p.returncode))
    summary['wall_s'] = wall
    summary['stderr_tail'] = err[-2000:]
    if p.returncode != 0 or summary.get('faults', 0) > 0:
        faults = [r for r in iter_log(log_path) if r.get('type') == 'fault'][:3]
        raise EngineFault('harness %s: engine fault (exit %s): %s' % (tag, p.returncode, faults))
    return summary, log_path


def normalize_crash(r):
    """crash records of case roots carry only the case line and a breadcrumb: fill in the case fields and the model"""
    if r.get('type') != 'crash':
        return r
    c = parse_case(r.get('case', '')) if r.get('case') and r.get('case') != '(orphan)' else {}
    for k, v in c.items():
        r.setdefault(k, v)
    if not r.get('model') and ' ## ' in (r.get('crumb') or ''):
        try:
            r['model'] = json.loads(r['crumb'].split(' ## ')[-1])
        except Exception:
            pass
    return r


def iter_log(path):
    with open(path) as f:
        for line in f:
            line = line.strip()
            if not line:
                continue
            try:
                yield normalize_crash(json.loads(line))
            except json.JSONDecodeError:
                yield {'type': 'garbled', 'raw': line[:200]}


# ----------------------------------------------------------------------------- models → concrete inputs
def parse_q(s):
    s = str(s).strip()
    if s.startswith('(') and s.endswith(')'):
        # z3 prints (/ 1.0 2.0) or (- x)
        toks = s.replace('(', ' ( ').replace(')', ' ) ').split()

        def rd(i):
            if toks[i] == '(':
                op = toks[i + 1]
                args = []
                i += 2
                while toks[i] != ')':
                    v, i = rd(i)
                    args.append(v)
                i += 1
                if op == '/':
                    return args[0] / args[1], i
                if op == '-':
                    return (-args[0] if len(args) == 1 else args[0] - args[1]), i
                raise ValueError(s)
            return fractions.Fraction(toks[i]), i + 1
        return rd(0)[0]
    return fractions.Fraction(s)


def scaled_weights(model, names):
    """Rational model values → integers by a common positive scale (order and ties of sums are preserved)."""
    vals = [parse_q(model[n]) for n in names]
    den = 1
    for v in vals:
        den = den * v.denominator // math.gcd(den, v.denominator)
    return [int(v * den) for v in vals], den


def unscaled_weight_vectors(rec_or_case, model):
    """The model's weights WITHOUT scaling to integers, as exactly representable doubles: the raw values when all are dyadic, and the values
    rounded to positive multiples of 1/8 otherwise.  Needed to reproduce violations that only exist for non-integral weights (a weight
    truncated to an integer somewhere): scaling the counterexample to integers would hide them."""
    ints, den = instance_weights(rec_or_case, model)
    if den == 1:
        return []
    out = []
    if den & (den - 1) == 0 and den <= 2 ** 20:
        out.append([w / float(den) for w in ints])
    r8 = [max(1, round(fractions.Fraction(w, den) * 8)) / 8.0 for w in ints]
    if r8 not in out:
        out.append(r8)
    return out


def instance_weights(rec_or_case, model):
    """Concrete integer weights of every edge of a case under `model` (symbolic edges scaled, fixed edges scaled too)."""
    c = rec_or_case
    edges = [] if c.get('edges', '-') in ('-', '') else c['edges'].split(',')
    m = len(edges)
    sym = c.get('sym', 'all')
    symset = set(range(m)) if sym == 'all' else (set() if sym in ('none', '') else set(int(x) for x in sym.split(',')))
    fixed = [1] * m
    if c.get('fixed'):
        for i, x in enumerate(c['fixed'].split(',')):
            if i < m:
                fixed[i] = int(x)
    vals = []
    for i in range(m):
        vals.append(parse_q(model['w%d' % i]) if i in symset else fractions.Fraction(fixed[i]))
    den = 1
    for v in vals:
        den = den * v.denominator // math.gcd(den, v.denominator)
    return [int(v * den) for v in vals], den


def unscaled_weight_vectors(rec_or_case, model):
    """The model's weights WITHOUT scaling to integers, as exactly representable doubles: the raw values when all are dyadic, and the values
    rounded to positive multiples of 1/8 otherwise.  Needed to reproduce violations that only exist for non-integral weights (a weight
    truncated to an integer somewhere): scaling the counterexample to integers would hide them."""
    ints, den = instance_weights(rec_or_case, model)
    if den == 1:
        return []
    out = []
    if den & (den - 1) == 0 and den <= 2 ** 20:
        out.append([w / float(den) for w in ints])
    r8 = [max(1, round(fractions.Fraction(w, den) * 8)) / 8.0 for w in ints]
    if r8 not in out:
        out.append(r8)
    return out


def parse_case(line):
    c = {}
    for tok in line.split():
        if '=' in tok:
            k, v = tok.split('=', 1)
            c[k] = v
        else:
            c[tok] = '1'
    return c


def run_replayer(binpath, lines, timeout=120):
    """Feeds case lines to a concrete replayer; returns list of dicts (None for a line that crashed it)."""
    res = []
    for ln in lines:
        try:
            r = subprocess.run([binpath], input=ln + '\n', stdout=subprocess.PIPE, stderr=subprocess.PIPE, text=True,
                               timeout=timeout)
        except subprocess.TimeoutExpired:
            res.append({'crashed': True, 'why': 'timeout'})
            continue
        out = [l for l in r.stdout.splitlines() if l.startswith('{')]
        if r.returncode != 0 or not out:
            res.append({'crashed': True, 'exit': r.returncode, 'stderr': r.stderr[-1500:]})
        else:
            res.append(json.loads(out[-1]))
    return res


def run_replayer_batch(binpath, lines, timeout=600):
    """All lines in one process (fast path for translation validation); falls back to one-by-one on failure."""
    if not lines:
        return []
    try:
        r = subprocess.run([binpath], input='\n'.join(lines) + '\n', stdout=subprocess.PIPE, stderr=subprocess.PIPE,
                           text=True, timeout=timeout)
        out = [json.loads(l) for l in r.stdout.splitlines() if l.startswith('{')]
        if r.returncode == 0 and len(out) == len(lines):
            return out
    except (subprocess.TimeoutExpired, json.JSONDecodeError):
        pass
    return run_replayer(binpath, lines)


# ----------------------------------------------------------------------------- graph enumerators
def all_pairs(n):
    return [(a, b) for a in range(n) for b in range(a + 1, n)]


def edges_str(edges):
    return ','.join('%d-%d' % e for e in edges) if edges else '-'


def all_labelled_graphs(n):
    pairs = all_pairs(n)
    for mask in range(1 << len(pairs)):
        yield [pairs[i] for i in range(len(pairs)) if mask >> i & 1]


def canon(n, edges):
    best = None
    es = set(edges)
    for perm in itertools.permutations(range(n)):
        key = tuple(sorted(tuple(sorted((perm[a], perm[b]))) for a, b in es))
        if best is None or key < best:
            best = key
    return best


def iso_classes(n, max_m=None, min_m=0):
    seen = {}
    for g in all_labelled_graphs(n):
        if max_m is not None and len(g) > max_m:
            continue
        if len(g) < min_m:
            continue
        k = canon(n, g)
        if k not in seen:
            seen[k] = g
    return list(seen.values())


def components(n, edges):
    p = list(range(n))

    def find(x):
        while p[x] != x:
            p[x] = p[p[x]]
            x = p[x]
        return x
    c = n
    for a, b in edges:
        ra, rb = find(a), find(b)
        if ra != rb:
            p[ra] = rb
            c -= 1
    return c


def dim(n, edges):
    return len(edges) - n + components(n, edges)


def family(name):
    """named tie-heavy families → (n, edges)"""
    if name == 'K33':
        return 6, [(a, b) for a in range(3) for b in range(3, 6)]
    if name == 'Q3':
        return 8, [(a, a ^ (1 << k)) for a in range(8) for k in range(3) if a < a ^ (1 << k)]
    if name.startswith('grid'):
        r, c = int(name[4]), int(name[6])
        es = []
        for i in range(r):
            for j in range(c):
                if j + 1 < c:
                    es.append((i * c + j, i * c + j + 1))
                if i + 1 < r:
                    es.append((i * c + j, (i + 1) * c + j))
        return r * c, es
    if name.startswith('K') and name[1:].isdigit():
        n = int(name[1:])
        return n, all_pairs(n)
    if name.startswith('wheel'):
        k = int(name[5:])
        return k + 1, [(0, i) for i in range(1, k + 1)] + [(i, i % k + 1) for i in range(1, k + 1)]
    if name == 'petersen':
        return 10, [(i, (i + 1) % 5) for i in range(5)] + [(i, i + 5) for i in range(5)] + \
            [(5 + i, 5 + (i + 2) % 5) for i in range(5)]
    if name.startswith('theta'):
        # theta(a,b,c): three internally disjoint paths of a,b,c edges between vertices 0 and 1
        ls = [int(x) for x in name[5:].split('_')]
        es, nxt = [], 2
        for L in ls:
            prev = 0
            for _ in range(L - 1):
                es.append((prev, nxt))
                prev = nxt
                nxt += 1
            es.append((prev, 1))
        return nxt, es
    if name.startswith('C') and name[1:].isdigit():
        n = int(name[1:])
        return n, [(i, (i + 1) % n) for i in range(n)]
    if name.startswith('cyc') and 'c' in name[3:]:
        # cycNcK: cycle on N vertices plus the chord (0,K)
        n, k = name[3:].split('c')
        n, k = int(n), int(k)
        return n, [(i, (i + 1) % n) for i in range(n)] + [(0, k)]
    if name == 'two_triangles_bridge':
        return 6, [(0, 1), (1, 2), (0, 2), (2, 3), (3, 4), (4, 5), (3, 5)]
    if name == 'tri_plus_tri':
        return 6, [(0, 1), (1, 2), (0, 2), (3, 4), (4, 5), (3, 5)]
    if name == 'k4_pendant':
        return 6, all_pairs(4) + [(3, 4), (4, 5)]
    if name == 'prism':
        return 6, [(0, 1), (1, 2), (0, 2), (3, 4), (4, 5), (3, 5), (0, 3), (1, 4), (2, 5)]
    raise KeyError(name)


def norm_edges(es):
    return [tuple(sorted(e)) for e in es]


# ----------------------------------------------------------------------------- known findings
def known_findings():
    out = {'finding': [], 'fixed': []}
    p = os.path.join(VERIF, 'known_findings.txt')
    if not os.path.exists(p):
        return out
    for line in open(p):
        line = line.strip()
        if not line or line.startswith('#'):
            continue
        kind, _, rest = line.partition(':')
        kind = kind.strip()
        if kind not in out:
            continue
        toks = rest.split()
        d = {'text': ' '.join(t for t in toks if not t.startswith('property='))}
        for t in toks:
            if '=' in t:
                k, v = t.split('=', 1)
                d[k] = v
        out[kind].append(d)
    return out


def finding_matches(prop, key):
    """key: string identifying a violation (e.g. 'mcb_sva_iso_trees').  A finding lists key=<prefix>."""
    for f in known_findings()['finding']:
        if f.get('property') == prop and f.get('key') and key.startswith(f['key']):
            return f
    return None


# ----------------------------------------------------------------------------- evidence
def write_evidence(prop, tier, seed, level, coverage, wall_s, violations, assumptions):
    os.makedirs(os.path.join(VERIF, 'evidence'), exist_ok=True)
    ev = {'property_id': prop, 'tier': tier, 'seed': seed, 'level': level, 'coverage': coverage,
          'assumptions': assumptions, 'wall_s': round(wall_s, 2), 'violations': violations}
    p = os.path.join(VERIF, 'evidence', prop + '.json')
    if os.environ.get('PARMCB_REPO') and os.path.realpath(os.environ['PARMCB_REPO']) != os.path.realpath('/repo'):
        # a run against a scratch tree (seeded-change testing) must not overwrite the evidence of /repo
        os.makedirs(os.path.join(VERIF, 'evidence', 'scratch'), exist_ok=True)
        p = os.path.join(VERIF, 'evidence', 'scratch', prop + '.json')
    with open(p + '.tmp', 'w') as f:
        json.dump(ev, f, indent=1, default=str)
    os.replace(p + '.tmp', p)
    return p


class Agg:
    """Aggregates harness logs for one property."""

    def __init__(self, prefixes):
        self.prefixes = tuple(prefixes)
        self.leaves = 0
        self.forks = 0
        self.queries = 0
        self.solver_s = 0.0
        self.obl = {}          # name -> [checked, discharged] (from sampled leaves + all violated)
        self.nobl = 0
        self.violated = []     # (record, obligation)
        self.crashes = []
        self.samples = []
        self.cases = 0
        self.maxdepth = 0
        self.syntactic = 0
        self.cache_hits = 0
        self.witness_hits = 0
        self.wall = 0.0
        self.inf_events = 0
        self.per_case = {}

    def add_summary(self, s):
        self.forks += s.get('forks', 0)
        self.queries += s.get('queries', 0)
        self.solver_s += s.get('solver_s', 0.0)
        self.cases += s.get('cases', 0)
        self.maxdepth = max(self.maxdepth, s.get('maxdepth', 0))
        self.syntactic += s.get('syntactic', 0)
        self.cache_hits += s.get('cache_hits', 0)
        self.witness_hits += s.get('witness_hits', 0)
        self.wall += s.get('wall_s', 0.0)
        self.inf_events += s.get('inf_events', 0)
        self.narrowings = getattr(self, 'narrowings', 0) + s.get('narrowings', 0)

    def add_log(self, path, keep_leaf=None):
        for r in iter_log(path):
            t = r.get('type')
            if t == 'leaf':
                self.leaves += 1
                self.per_case[r.get('case', '')] = self.per_case.get(r.get('case', ''), 0) + 1
                self.nobl += r.get('nobl', 0)
                for name in r.get('ok', '').split('|'):
                    if name and name.startswith(self.prefixes):
                        st = self.obl.setdefault(name, [0, 0])
                        st[0] += 1
                        st[1] += 1
                for o in r.get('obl', []):
                    if not o['name'].startswith(self.prefixes):
                        continue
                    st = self.obl.setdefault(o['name'], [0, 0])
                    st[0] += 1
                    self.violated.append((r, o))
                if len(self.samples) < 5 and (self.leaves % 11 == 1):
                    self.samples.append({k: r[k] for k in r if k not in ('type',)})
                if keep_leaf:
                    keep_leaf(r)
            elif t == 'crash':
                self.crashes.append(r)
            elif t == 'garbled':
                raise EngineFault('garbled log line in %s: %s' % (path, r['raw']))


def shash(obj):
    """stable replacement for hash(): python randomises str hashes per process, which would make the case lists differ between runs"""
    import zlib
    return zlib.crc32(repr(obj).encode())


def rng(seed):
    return random.Random(int(seed))
