#!/bin/sh
# Repository baseline with the verification guard OFF: the repo's own CMake configuration and its ctest.
set -e
cmake -G Ninja -S /repo -B /repo/_build -DCMAKE_BUILD_TYPE=RelWithDebInfo >/dev/null
cmake --build /repo/_build >/dev/null
ctest --test-dir /repo/_build -j8 --timeout 900
