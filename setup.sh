#!/bin/sh
# Offline setup: pre-build every harness/replayer for the current /repo tree (cached under .build/<hash>).
# The checks build on demand as well; a second attempt covers transient failures (e.g. a concurrent clean-up of stale build dirs).
cd "$(dirname "$0")" || exit 1
python3 lib/prebuild.py && exit 0
echo "setup: prebuild failed once, retrying" >&2
exec python3 lib/prebuild.py
