#!/bin/sh
# Offline setup: pre-build every harness/replayer for the current /repo tree (cached under .build/<hash>).
cd "$(dirname "$0")" && exec python3 lib/prebuild.py
