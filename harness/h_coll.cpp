// C14: Horton / FVS / isometric candidate collections on the same symbolic weights, in one path.
#include "common.hpp"

#include <parmcb/detail/cycles.hpp>

using namespace hx;

typedef parmcb::SPTree<Graph, WeightMap> Tree;
typedef parmcb::SPNode<Graph, WeightMap> Node;
typedef parmcb::CandidateCycle<Graph, WeightMap> Cand;

struct Unfolded {
    bool ok = false;
    std::string why;
    uint64_t mask = 0;
    int root = -1;
};

static int edge_index(const std::vector<Edge> &eidx, const Edge &e) {
    for (size_t i = 0; i < eidx.size(); i++) if (eidx[i] == e) return (int) i;
    return -1;
}

// unfold candidate (tree, e) in the harness: two root paths that share only the root, plus e
static Unfolded unfold(const Tree &tr, const Cand &c, const orc::Topo &t, const std::vector<Edge> &eidx) {
    Unfolded u;
    int ei = edge_index(eidx, c.edge());
    if (ei < 0) { u.why = "candidate edge is not a graph edge"; return u; }
    u.root = (int) tr.source();
    auto walk = [&](int v, std::vector<int> &verts, std::vector<int> &edges) -> bool {
        std::set<int> seen;
        int cur = v;
        while (true) {
            if (!seen.insert(cur).second) return false;
            verts.push_back(cur);
            std::shared_ptr<Node> nd = tr.node(cur);
            if (!nd) return false;
            if (!nd->has_pred()) break;
            int pe = edge_index(eidx, nd->pred());
            if (pe < 0) return false;
            edges.push_back(pe);
            int a = t.edges[pe].first, b = t.edges[pe].second;
            if (a != cur && b != cur) return false;
            cur = (a == cur) ? b : a;
        }
        return cur == u.root;
    };
    std::vector<int> v1, e1, v2, e2;
    if (!walk(t.edges[ei].first, v1, e1) || !walk(t.edges[ei].second, v2, e2)) { u.why = "endpoint has no root path"; return u; }
    // the two root paths must meet only at the root
    std::set<int> s1(v1.begin(), v1.end());
    int common = 0;
    for (int v : v2) if (s1.count(v)) common++;
    if (common != 1) { u.why = "root paths share more than the root"; return u; }
    std::vector<int> cyc = e1;
    cyc.insert(cyc.end(), e2.begin(), e2.end());
    cyc.push_back(ei);
    std::string why;
    if (!orc::is_simple_cycle(t, cyc, why)) { u.why = why; return u; }
    u.mask = orc::mask_of(cyc);
    u.ok = true;
    return u;
}

template<class Builder>
static void run_builder(const char *name, const Graph &g, const WeightMap &wm, const Instance &I, const std::vector<Edge> &eidx,
        std::vector<uint64_t> &masks, bool &sound) {
    std::vector<Tree> trees;
    std::vector<Cand> cands;
    Builder b;
    b(g, wm, trees, cands);
    const orc::Topo &t = I.topo;
    z3::context &ctx = symx::E()->ctx;
    z3::expr weights_ok = ctx.bool_val(true);
    sound = true;
    std::string why;
    for (auto &c : cands) {
        if (c.tree() >= trees.size()) { sound = false; why += "tree id out of range;"; continue; }
        Unfolded u = unfold(trees[c.tree()], c, t, eidx);
        if (!u.ok) { sound = false; why += u.why + ";"; continue; }
        masks.push_back(u.mask);
        symx::Lin s;
        for (int j = 0; j < t.m(); j++) if (u.mask >> j & 1) s = s.plus(I.w[j].f);
        weights_ok = weights_ok && (c.weight().expr() == s.expr());
    }
    symx::require(sound, std::string("C14:") + name + ":every-candidate-is-a-simple-cycle-through-its-root", why);
    symx::prove(weights_ok, std::string("C14:") + name + ":recorded-weight==true-weight");
    symx::note(std::string("n_") + name, std::to_string(cands.size()));
}

// sufficiency: every cycle of the graph lies in the GF(2) span of the candidates that are no heavier than it
static void prove_sufficient(const char *name, const std::vector<uint64_t> &coll, const Instance &I) {
    const orc::Topo &t = I.topo;
    z3::context &ctx = symx::E()->ctx;
    static int seq = 0;
    auto wexpr = [&](uint64_t m) {
        symx::Lin s;
        for (int j = 0; j < t.m(); j++) if (m >> j & 1) s = s.plus(I.w[j].f);
        return s.expr();
    };
    std::set<uint64_t> distinct(coll.begin(), coll.end());
    z3::expr all = ctx.bool_val(true);
    for (auto C : orc::all_simple_cycles(t)) {
        seq++;
        std::vector<z3::expr> y;
        for (int j = 0; j < t.m(); j++) y.push_back(ctx.bool_const(("y" + std::to_string(seq) + "_" + std::to_string(j)).c_str()));
        auto dot = [&](uint64_t m) {
            z3::expr x = ctx.bool_val(false);
            for (int j = 0; j < t.m(); j++) if (m >> j & 1) x = (x != y[j]);
            return x;
        };
        z3::expr bad = dot(C);
        for (auto Cp : distinct) bad = bad && z3::implies(wexpr(Cp) <= wexpr(C), !dot(Cp));
        all = all && !bad;
    }
    symx::prove(all, std::string("C14:") + name + ":contains-a-minimum-basis(every cycle in span of no-heavier candidates)");
}

static void body(const symx::Case &c, const std::string &line) {
    symx::Engine *e = symx::E();
    Instance I = make_instance(c);
    symx::declare_inf(I.w);
    symx::resolve_model();
    e->case_json = "\"n\":" + std::to_string(I.topo.n) + ",\"edges\":\"" + (c.count("edges") ? c.at("edges") : "-") +
                   "\",\"sym\":\"" + (c.count("sym") ? c.at("sym") : "all") + "\",\"fixed\":\"" +
                   (c.count("fixed") ? c.at("fixed") : "") + "\",\"order\":\"" + (c.count("order") ? c.at("order") : "") + "\"";
    Graph g;
    std::vector<Edge> eidx;
    build_graph(I, g, eidx, parse_int_list(c, "order"));
    WeightMap wm = boost::get(boost::edge_weight, g);
    std::string which = c.count("coll") ? c.at("coll") : "all";

    std::vector<uint64_t> horton, fvs, iso;
    bool sh = true, sf = true, si = true;
    run_builder<parmcb::detail::HortonCyclesBuilder<Graph, WeightMap>>("horton", g, wm, I, eidx, horton, sh);
    if (which == "all" || which == "fvs") run_builder<parmcb::detail::FVSCyclesBuilder<Graph, WeightMap>>("fvs", g, wm, I, eidx, fvs, sf);
    if (which == "all" || which == "iso") run_builder<parmcb::detail::ISOCyclesBuilder<Graph, WeightMap>>("iso", g, wm, I, eidx, iso, si);
    std::set<uint64_t> hs(horton.begin(), horton.end());
    bool nested_f = true, nested_i = true;
    for (auto m : fvs) if (!hs.count(m)) nested_f = false;
    for (auto m : iso) if (!hs.count(m)) nested_i = false;
    if (which == "all" || which == "fvs") symx::require(nested_f, "C14:fvs-collection-is-a-subcollection-of-hortons");
    if (which == "all" || which == "iso") symx::require(nested_i, "C14:iso-collection-is-a-subcollection-of-hortons");
    if (sh) prove_sufficient("horton", horton, I);
    if (sf && (which == "all" || which == "fvs")) prove_sufficient("fvs", fvs, I);
    if (si && (which == "all" || which == "iso")) prove_sufficient("iso", iso, I);
    symx::require(!e->tainted_inf, "C07:no-arithmetic-on-infinity");
}

int main(int argc, char **argv) {
    symx::Options o = symx::parse_args(argc, argv);
    return symx::run_cases(o, body);
}
