// C10 (validators): has_loops / has_multiple_edges / has_non_positive_weights on multigraphs with loops,
// multiplicities decided through the engine, weights symbolic reals WITHOUT the positivity assumption.
//   n=<n> maxmult=<k>
#include "common.hpp"
#include <parmcb/util.hpp>

using namespace hx;

static void body(const symx::Case &c, const std::string &line) {
    symx::Engine *e = symx::E();
    z3::context &ctx = e->ctx;
    int n = atoi(c.at("n").c_str());
    int maxmult = c.count("maxmult") ? atoi(c.at("maxmult").c_str()) : 2;
    Graph g;
    for (int v = 0; v < n; v++) boost::add_vertex(g);
    WeightMap wm = boost::get(boost::edge_weight, g);
    bool loop = false, multi = false;
    std::vector<Real> ws;
    std::ostringstream es;
    int cnt = 0;
    for (int a = 0; a < n; a++) for (int b = a; b < n; b++) {
        int mult = symx::choose(maxmult + 1, "mult");
        if (mult > 0 && a == b) loop = true;
        if (mult > 1) multi = true;
        for (int k = 0; k < mult; k++) {
            Real w = Real::variable("w" + std::to_string(cnt), false);
            // insert half of the copies with swapped endpoints
            Edge ed = (k & 1) ? boost::add_edge(b, a, g).first : boost::add_edge(a, b, g).first;
            wm[ed] = w;
            ws.push_back(w);
            es << (cnt ? "," : "") << a << "-" << b;
            cnt++;
        }
    }
    symx::resolve_model();
    e->case_json = "\"n\":" + std::to_string(n) + ",\"edges\":\"" + (cnt ? es.str() : std::string("-")) + "\"";
    bool r_nonpos = parmcb::has_non_positive_weights(g, wm);
    z3::expr some_nonpos = ctx.bool_val(false);
    for (auto &w : ws) some_nonpos = some_nonpos || (w.expr() <= ctx.real_val(0));
    if (r_nonpos) symx::prove(some_nonpos, "C10:has_non_positive_weights:true=>some-weight<=0");
    else symx::prove(!some_nonpos, "C10:has_non_positive_weights:false=>all-weights>0");
    symx::require(parmcb::has_loops(g) == loop, "C10:has_loops<=>graph-has-a-self-loop");
    if (!loop) symx::require(parmcb::has_multiple_edges(g) == multi, "C10:has_multiple_edges<=>repeated-vertex-pair(loop-free)");
    symx::note("nonpos", r_nonpos ? "true" : "false");
}

int main(int argc, char **argv) {
    symx::Options o = symx::parse_args(argc, argv);
    return symx::run_cases(o, body);
}
