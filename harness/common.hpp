// Shared pieces of the engine-A harnesses: case parsing, graph construction with symbolic weights,
// descriptor → edge-index mapping, basis-validity checks (concrete per leaf) and the solver-side
// obligations (returned weight, minimality, approximation bound).
#pragma once
#include "../symx/symx.hpp"
#include "../symx/oracle.hpp"

#include <boost/graph/adjacency_list.hpp>
#include <boost/property_map/property_map.hpp>
#include <list>

namespace hx {

#ifndef HX_WEIGHT_TYPE
#define HX_WEIGHT_TYPE symx::Real
#endif
typedef HX_WEIGHT_TYPE Real;
typedef boost::adjacency_list<boost::vecS, boost::vecS, boost::undirectedS, boost::no_property,
        boost::property<boost::edge_weight_t, Real>> Graph;
typedef boost::graph_traits<Graph>::edge_descriptor Edge;
typedef boost::graph_traits<Graph>::vertex_descriptor Vertex;
typedef boost::property_map<Graph, boost::edge_weight_t>::type WeightMap;

struct Instance {
    orc::Topo topo;
    std::vector<Real> w;        // per edge (symbolic variable or constant)
    std::vector<int> symbolic;  // indices of symbolic edges
    std::string sym_spec, fixed_spec;
};

// case keys: n=<int> edges=a-b,c-d,... sym=all|none|i,j,k  fixed=v0,v1,... (per edge; default 1)
inline Instance make_instance(const symx::Case &c, const std::string &prefix = "w") {
    Instance I;
    int n = atoi(c.at("n").c_str());
    I.topo = orc::parse_topo(n, c.count("edges") ? c.at("edges") : "-");
    int m = I.topo.m();
    std::string sym = c.count("sym") ? c.at("sym") : "all";
    std::vector<char> is_sym(m, 0);
    if (sym == "all") for (int i = 0; i < m; i++) is_sym[i] = 1;
    else if (sym != "none") for (auto &s : orc::split(sym, ',')) is_sym.at(atoi(s.c_str())) = 1;
    std::vector<long> fixed(m, 1);
    if (c.count("fixed")) {
        auto f = orc::split(c.at("fixed"), ',');
        for (size_t i = 0; i < f.size() && i < (size_t) m; i++) fixed[i] = atol(f[i].c_str());
    }
    std::vector<double> fixedd;
    if (c.count("fixedd")) for (auto &s : orc::split(c.at("fixedd"), ',')) fixedd.push_back(atof(s.c_str()));
    for (int i = 0; i < m; i++) {
        if (is_sym[i]) {
            I.w.push_back(Real::variable(prefix + std::to_string(i), true));
            I.symbolic.push_back(i);
        } else if (i < (int) fixedd.size()) {
            I.w.push_back(Real(fixedd[i]));
        } else {
            I.w.push_back(Real(fixed[i]));
        }
    }
    return I;
}

// build a BGL graph for an instance; `order` permutes edge insertion (empty = identity),
// `perm` relabels vertices (empty = identity).  eidx[i] = descriptor of topology edge i.
inline void build_graph(const Instance &I, Graph &g, std::vector<Edge> &eidx, const std::vector<int> &order = {},
        const std::vector<int> &perm = {}) {
    for (int v = 0; v < I.topo.n; v++) boost::add_vertex(g);
    int m = I.topo.m();
    eidx.assign(m, Edge());
    WeightMap wm = boost::get(boost::edge_weight, g);
    for (int k = 0; k < m; k++) {
        int i = order.empty() ? k : order[k];
        int a = I.topo.edges[i].first, b = I.topo.edges[i].second;
        if (!perm.empty()) { a = perm[a]; b = perm[b]; }
        Edge e = boost::add_edge(a, b, g).first;
        wm[e] = I.w[i];
        eidx[i] = e;
    }
}

// rank of every edge's property address (decides std::set<Edge> order inside parmcb); recorded so that a concrete replay can
// try to reproduce the same order
inline std::string address_order(const Graph &g, const std::vector<Edge> &eidx) {
    std::vector<std::pair<const void *, int>> a;
    for (size_t i = 0; i < eidx.size(); i++) a.emplace_back((const void *) eidx[i].get_property(), (int) i);
    std::sort(a.begin(), a.end());
    std::vector<int> rank(eidx.size());
    for (size_t k = 0; k < a.size(); k++) rank[a[k].second] = (int) k;
    std::string s;
    for (size_t i = 0; i < rank.size(); i++) s += (i ? "," : "") + std::to_string(rank[i]);
    return s;
}

inline std::vector<int> parse_int_list(const symx::Case &c, const std::string &key) {
    std::vector<int> r;
    if (!c.count(key)) return r;
    for (auto &s : orc::split(c.at(key), ',')) r.push_back(atoi(s.c_str()));
    return r;
}

// map emitted descriptors to topology edge indices by descriptor comparison only (no dereference).
// Returns false (and says why) when some descriptor is not an edge of the caller's graph.
template<class CycleList>
bool to_indices(const CycleList &cycles, const std::vector<Edge> &eidx, std::vector<std::vector<int>> &out,
        std::string &why) {
    out.clear();
    for (auto &cyc : cycles) {
        std::vector<int> ix;
        for (auto &e : cyc) {
            int found = -1;
            for (size_t i = 0; i < eidx.size(); i++) if (eidx[i] == e) { found = (int) i; break; }
            if (found < 0) { why = "emitted descriptor is not an edge of the caller's graph"; return false; }
            ix.push_back(found);
        }
        out.push_back(ix);
    }
    return true;
}

inline std::string cycles_json(const std::vector<std::vector<int>> &cyc) {
    std::ostringstream o;
    o << "[";
    for (size_t i = 0; i < cyc.size(); i++) {
        o << (i ? "," : "") << "[";
        for (size_t j = 0; j < cyc[i].size(); j++) o << (j ? "," : "") << cyc[i][j];
        o << "]";
    }
    o << "]";
    return o.str();
}

// C01: concrete-per-leaf validity of an emitted basis
inline bool check_basis_validity(const orc::Topo &t, const std::vector<std::vector<int>> &cyc, const std::string &tag) {
    bool ok = true;
    int dim = orc::cycle_space_dim(t);
    ok &= symx::require((int) cyc.size() == dim, tag + "count==m-n+c",
            "emitted " + std::to_string(cyc.size()) + " expected " + std::to_string(dim));
    std::vector<uint64_t> rows;
    bool all_simple = true;
    std::string why_all;
    for (auto &c : cyc) {
        std::string why;
        if (!orc::is_simple_cycle(t, c, why)) { all_simple = false; why_all += why + ";"; }
        rows.push_back(orc::mask_of(c));
    }
    ok &= symx::require(all_simple, tag + "each-emitted-list-is-one-simple-cycle", why_all);
    int rank = orc::gf2_rank(rows);
    ok &= symx::require(rank == (int) cyc.size(), tag + "gf2-independent",
            "rank " + std::to_string(rank) + " of " + std::to_string(cyc.size()));
    return ok;
}

inline z3::expr weight_expr_of_cycle(const std::vector<int> &cyc, const std::vector<Real> &w) {
    symx::Lin s;
    for (int e : cyc) s = s.plus(w[e].f);
    return s.expr();
}

inline symx::Lin lin_of_cycles(const std::vector<std::vector<int>> &cyc, const std::vector<Real> &w) {
    symx::Lin s;
    for (auto &c : cyc) for (int e : c) s = s.plus(w[e].f);
    return s;
}

// C02 (solver): returned value equals the sum of the emitted cycles' weights
inline bool prove_returned_weight(const Real &ret, const std::vector<std::vector<int>> &cyc, const std::vector<Real> &w,
        const std::string &tag) {
    symx::Lin s = lin_of_cycles(cyc, w);
    return symx::prove(ret.expr() == s.expr(), tag + "ret==sum-of-emitted-cycle-weights");
}

// expression for the weight of the GF(2) combination selected by boolean vector lam of the basis cyc
inline z3::expr combo_weight(const std::vector<z3::expr> &lam, const std::vector<std::vector<int>> &cyc,
        const std::vector<Real> &w, int m) {
    z3::context &ctx = symx::E()->ctx;
    z3::expr total = ctx.real_val(0);
    for (int e = 0; e < m; e++) {
        z3::expr x = ctx.bool_val(false);
        bool any = false;
        for (size_t i = 0; i < cyc.size(); i++) {
            if (std::find(cyc[i].begin(), cyc[i].end(), e) != cyc[i].end()) {
                x = any ? (x != lam[i]) : lam[i]; // xor
                any = true;
            }
        }
        if (any) total = total + z3::ite(x, w[e].expr(), ctx.real_val(0));
    }
    return total;
}

// C02 (solver): single-exchange optimality over the whole cycle space.
//   ∄ w ⊨ PC, λ ∈ {0,1}^N, j with λ_j: w(⊕_{i:λ_i} B_i) < w(B_j)
inline bool prove_minimal(const std::vector<std::vector<int>> &cyc, const std::vector<Real> &w, int m,
        const std::string &tag) {
    z3::context &ctx = symx::E()->ctx;
    size_t N = cyc.size();
    if (N == 0) return true;
    static int seq = 0;
    seq++;
    std::vector<z3::expr> lam;
    for (size_t i = 0; i < N; i++) lam.push_back(ctx.bool_const(("lam" + std::to_string(seq) + "_" + std::to_string(i)).c_str()));
    z3::expr comb = combo_weight(lam, cyc, w, m);
    z3::expr bad = ctx.bool_val(false);
    for (size_t j = 0; j < N; j++) bad = bad || (lam[j] && comb < weight_expr_of_cycle(cyc[j], w));
    return symx::prove(!bad, tag + "minimal(single-exchange over cycle space)");
}

// ∃ invertible M over GF(2): factor * Σ_r w(⊕_i M_ri B_i) < bound   must be unsat
inline bool prove_no_lighter_basis(const std::vector<std::vector<int>> &cyc, const std::vector<Real> &w, int m,
        long factor, const z3::expr &bound, const std::string &name) {
    z3::context &ctx = symx::E()->ctx;
    int N = (int) cyc.size();
    if (N == 0) return symx::prove(ctx.real_val(0) >= bound || ctx.real_val(0) <= bound, name);
    static int seq = 0;
    seq++;
    auto mk = [&](const char *p, int r, int c) {
        return ctx.bool_const((std::string(p) + std::to_string(seq) + "_" + std::to_string(r) + "_" + std::to_string(c)).c_str());
    };
    std::vector<std::vector<z3::expr>> M(N), Mi(N);
    for (int r = 0; r < N; r++) for (int c = 0; c < N; c++) { M[r].push_back(mk("M", r, c)); Mi[r].push_back(mk("Mi", r, c)); }
    z3::expr cons = ctx.bool_val(true);
    // M * Mi = I over GF(2)
    for (int r = 0; r < N; r++) for (int c = 0; c < N; c++) {
        z3::expr x = ctx.bool_val(false);
        for (int k = 0; k < N; k++) x = (x != (M[r][k] && Mi[k][c]));
        cons = cons && (x == ctx.bool_val(r == c));
    }
    z3::expr total = ctx.real_val(0);
    for (int r = 0; r < N; r++) total = total + combo_weight(M[r], cyc, w, m);
    z3::expr bad = cons && (ctx.real_val((int) factor) * total < bound);
    return symx::prove(!bad, name);
}

} // namespace hx
