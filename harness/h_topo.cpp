// C13 (greedy_fvs) and C16 (ForestIndex): the only input is the topology.  Adjacency bits are boolean variables of the
// path condition, decided through the engine, so one run visits every labelled simple graph on n vertices (the degenerate
// case of the technique: exhaustive within the bound, nothing numeric for the solver to decide).
//   what=fvs|findex n=<n> [orders=K seed=S] [minm= maxm=]
#include "../symx/symx.hpp"
#include "../symx/oracle.hpp"

#include <boost/graph/adjacency_list.hpp>
#include <parmcb/detail/fvs.hpp>
#include <parmcb/forestindex.hpp>
#include <random>

typedef boost::adjacency_list<boost::vecS, boost::vecS, boost::undirectedS, boost::no_property,
        boost::property<boost::edge_weight_t, double>> Graph;
typedef boost::graph_traits<Graph>::edge_descriptor Edge;

static void body(const symx::Case &c, const std::string &line) {
    symx::Engine *e = symx::E();
    z3::context &ctx = e->ctx;
    int n = atoi(c.at("n").c_str());
    std::string what = c.at("what");
    int orders = c.count("orders") ? atoi(c.at("orders").c_str()) : 1;
    unsigned seed = c.count("seed") ? (unsigned) atol(c.at("seed").c_str()) : 1;
    orc::Topo t;
    t.n = n;
    // optional solver-side assumption on the number of edges
    std::vector<z3::expr> bits;
    for (int a = 0; a < n; a++) for (int b = a + 1; b < n; b++) {
        z3::expr x = ctx.bool_const(("e_" + std::to_string(a) + "_" + std::to_string(b)).c_str());
        bits.push_back(x);
    }
    if (c.count("minm") || c.count("maxm")) {
        z3::expr cnt = ctx.int_val(0);
        for (auto &x : bits) cnt = cnt + z3::ite(x, ctx.int_val(1), ctx.int_val(0));
        if (c.count("minm")) symx::assume(cnt >= atoi(c.at("minm").c_str()));
        if (c.count("maxm")) symx::assume(cnt <= atoi(c.at("maxm").c_str()));
        symx::resolve_model();
    }
    if (c.count("edges")) {
        // a given topology (used for disjoint unions of small components on more vertices than the exhaustive part reaches)
        t = orc::parse_topo(n, c.at("edges"));
    } else {
        size_t bi = 0;
        for (int a = 0; a < n; a++) for (int b = a + 1; b < n; b++) {
            if (symx::decide_expr(bits[bi++])) t.edges.emplace_back(a, b);
        }
    }
    int m = t.m();
    int ord = symx::choose(orders, "order");
    std::vector<int> order(m);
    for (int i = 0; i < m; i++) order[i] = i;
    if (ord == 1) std::reverse(order.begin(), order.end());
    else if (ord >= 2) { std::mt19937 rng(seed * 7919u + ord * 104729u + (unsigned) m); std::shuffle(order.begin(), order.end(), rng); }
    bool flip = ord >= 1; // also flip endpoint order of every other edge
    Graph g;
    for (int v = 0; v < n; v++) boost::add_vertex(g);
    std::vector<Edge> eidx(m);
    for (int k = 0; k < m; k++) {
        int i = order[k];
        int a = t.edges[i].first, b = t.edges[i].second;
        if (flip && (k & 1)) std::swap(a, b);
        eidx[i] = boost::add_edge(a, b, g).first;
    }
    std::ostringstream es;
    for (int i = 0; i < m; i++) es << (i ? "," : "") << t.edges[i].first << "-" << t.edges[i].second;
    std::ostringstream os;
    for (int i = 0; i < m; i++) os << (i ? "," : "") << order[i];
    e->case_json = "\"what\":\"" + what + "\",\"n\":" + std::to_string(n) + ",\"edges\":\"" + (m ? es.str() : std::string("-")) + "\",\"order\":\"" + os.str() + "\"";

    if (what == "fvs") {
        std::vector<std::size_t> f;
        parmcb::greedy_fvs(g, std::back_inserter(f));
        std::set<std::size_t> fs(f.begin(), f.end());
        bool inrange = true;
        for (auto v : f) if (v >= (std::size_t) n) inrange = false;
        symx::require(inrange, "C13:emitted-vertices-are-vertices-of-g");
        symx::require(fs.size() == f.size(), "C13:each-vertex-at-most-once");
        orc::UF uf(n);
        bool acyclic = true;
        for (auto &ed : t.edges) if (!fs.count(ed.first) && !fs.count(ed.second)) if (!uf.unite(ed.first, ed.second)) acyclic = false;
        symx::require(acyclic, "C13:g-minus-F-is-acyclic");
        if (orc::cycle_space_dim(t) == 0) symx::require(f.empty(), "C13:forest=>nothing-emitted");
        symx::note("fvs_size", std::to_string(f.size()));
    } else {
        parmcb::ForestIndex<Graph> fi(g);
        bool bij = true, inverse = true;
        std::set<std::size_t> seen;
        for (int i = 0; i < m; i++) {
            std::size_t ix = fi(eidx[i]);
            if (ix >= (std::size_t) m || !seen.insert(ix).second) bij = false;
            else if (!(fi(ix) == eidx[i])) inverse = false;
        }
        symx::require(bij, "C16:edge->index-is-a-bijection-onto-0..m-1");
        symx::require(inverse, "C16:index->edge-inverts-edge->index");
        int comps = orc::components(t), dim = orc::cycle_space_dim(t);
        symx::require((int) fi.weak_connected_components() == comps, "C16:components==c");
        symx::require((int) fi.cycle_space_dimension() == dim, "C16:dimension==m-n+c");
        if (bij) {
            bool flag = true, acyc = true;
            orc::UF uf(n);
            int joined = 0;
            for (int i = 0; i < m; i++) {
                bool on = fi.is_on_forest(eidx[i]);
                if (on != (fi(eidx[i]) >= (std::size_t) dim)) flag = false;
                if (on) { if (!uf.unite(t.edges[i].first, t.edges[i].second)) acyc = false; else joined++; }
            }
            symx::require(flag, "C16:is_on_forest<=>index>=dimension");
            symx::require(acyc, "C16:on-forest-edges-are-acyclic");
            symx::require(n - joined == comps, "C16:on-forest-edges-connect-every-component");
        }
        // the same answers from a copy and from an index object that described another graph before (copy construction / assignment)
        {
            parmcb::ForestIndex<Graph> copy(fi);
            Graph other_g;                      // two triangles and an isolated vertex: 3 components, dimension 2
            for (int v = 0; v < 7; v++) boost::add_vertex(other_g);
            boost::add_edge(0, 1, other_g); boost::add_edge(1, 2, other_g); boost::add_edge(0, 2, other_g);
            boost::add_edge(3, 4, other_g); boost::add_edge(4, 5, other_g); boost::add_edge(3, 5, other_g);
            parmcb::ForestIndex<Graph> assigned(other_g);
            assigned = fi;
            bool same = true;
            for (auto *x : {&copy, &assigned}) {
                if (x->weak_connected_components() != fi.weak_connected_components() || x->cycle_space_dimension() != fi.cycle_space_dimension()) same = false;
                for (int i = 0; i < m && same; i++)
                    if ((*x)(eidx[i]) != fi(eidx[i]) || x->is_on_forest(eidx[i]) != fi.is_on_forest(eidx[i])) same = false;
            }
            symx::require(same, "C16:copies-and-assigned-indices-answer-like-the-original");
        }
    }
}

int main(int argc, char **argv) {
    symx::Options o = symx::parse_args(argc, argv);
    return symx::run_cases(o, body);
}
