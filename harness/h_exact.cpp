// C01 / C02 (and the k-independent parts reused elsewhere): the three sequential exact algorithms
// on symbolic positive real weights.
#include "common.hpp"

#include <parmcb/parmcb_sva_signed.hpp>
#include <parmcb/parmcb_sva_trees.hpp>

using namespace hx;

static void body(const symx::Case &c, const std::string &line) {
    symx::Engine *e = symx::E();
    Instance I = make_instance(c);
    symx::declare_inf(I.w);
    symx::resolve_model();
    std::string algo = c.at("algo");
    e->case_json = "\"algo\":\"" + algo + "\",\"n\":" + std::to_string(I.topo.n) + ",\"edges\":\"" +
                   (c.count("edges") ? c.at("edges") : "-") + "\",\"sym\":\"" + (c.count("sym") ? c.at("sym") : "all") +
                   "\",\"fixed\":\"" + (c.count("fixed") ? c.at("fixed") : "") + "\",\"order\":\"" +
                   (c.count("order") ? c.at("order") : "") + "\",\"perm\":\"" + (c.count("perm") ? c.at("perm") : "") + "\"";

    Graph g;
    std::vector<Edge> eidx;
    build_graph(I, g, eidx, parse_int_list(c, "order"), parse_int_list(c, "perm"));
    // topology as the library sees it (after relabelling)
    orc::Topo t = I.topo;
    {
        auto perm = parse_int_list(c, "perm");
        if (!perm.empty()) for (auto &ed : t.edges) { ed.first = perm[ed.first]; ed.second = perm[ed.second]; }
    }
    WeightMap wm = boost::get(boost::edge_weight, g);
    e->case_json += ",\"layout\":\"" + address_order(g, eidx) + "\"";

    std::list<std::list<Edge>> cycles;
    Real ret;
    bool threw = false;
    std::string what;
    try {
        if (algo == "signed") ret = parmcb::mcb_sva_signed(g, wm, std::back_inserter(cycles));
        else if (algo == "fvs") ret = parmcb::mcb_sva_fvs_trees(g, wm, std::back_inserter(cycles));
        else if (algo == "iso") ret = parmcb::mcb_sva_iso_trees(g, wm, std::back_inserter(cycles));
        else symx::fault("unknown algo " + algo);
    } catch (std::exception &ex) {
        threw = true;
        what = ex.what();
    }
    symx::require(!threw, "C01:no-exception", what);
    if (threw) return;

    std::vector<std::vector<int>> cyc;
    std::string why;
    bool mapped = to_indices(cycles, eidx, cyc, why);
    symx::require(mapped, "C01:edges-belong-to-input-graph", why);
    if (!mapped) return;
    symx::note("cycles", cycles_json(cyc));
    symx::note("N", std::to_string(cyc.size()));
    symx::note("ret", "\"" + symx::qstr(ret.value()) + "\"");

    bool valid = check_basis_validity(t, cyc, "C01:");
    prove_returned_weight(ret, cyc, I.w, "C02:");
    if (valid) {
        prove_minimal(cyc, I.w, t.m(), "C02:");
        if (cyc.size() <= 4 && c.count("matrix"))
            prove_no_lighter_basis(cyc, I.w, t.m(), 1, lin_of_cycles(cyc, I.w).expr(), "C02:no-lighter-basis(invertible-matrix form)");
    }
    symx::require(!e->tainted_inf, "C07:no-arithmetic-on-infinity", "a +inf sentinel took part in an addition");
}

int main(int argc, char **argv) {
    symx::Options o = symx::parse_args(argc, argv);
    return symx::run_cases(o, body);
}
