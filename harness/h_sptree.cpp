// C12: shortest-path trees (lex_dijkstra + SPTree) for EVERY source of a topology, symbolic weights.
#include "common.hpp"

#include <parmcb/sptrees.hpp>

using namespace hx;

typedef parmcb::SPTree<Graph, WeightMap> Tree;
typedef parmcb::SPNode<Graph, WeightMap> Node;

// tree path root -> v as vertex sequence (empty when unreachable / malformed); edge indices into eix
static bool root_path(const Tree &tr, const Graph &g, const orc::Topo &t, const std::vector<Edge> &eidx, int root, int v,
        std::vector<int> &verts, std::vector<int> &edges, std::string &why) {
    verts.clear();
    edges.clear();
    std::set<int> seen;
    int cur = v;
    while (true) {
        if (!seen.insert(cur).second) { why = "pred edges contain a cycle"; return false; }
        verts.push_back(cur);
        std::shared_ptr<Node> nd = tr.node(cur);
        if (!nd) { why = "path runs through a vertex without node"; return false; }
        if ((int) nd->vertex() != cur) { why = "node stored under the wrong vertex"; return false; }
        if (!nd->has_pred()) break;
        Edge pe = nd->pred();
        int ei = -1;
        for (size_t i = 0; i < eidx.size(); i++) if (eidx[i] == pe) { ei = (int) i; break; }
        if (ei < 0) { why = "pred edge is not an edge of the graph"; return false; }
        int a = t.edges[ei].first, b = t.edges[ei].second;
        if (a != cur && b != cur) { why = "pred edge not incident to its vertex"; return false; }
        edges.push_back(ei);
        cur = (a == cur) ? b : a;
    }
    if (cur != root) { why = "pred walk does not end at the root"; return false; }
    std::reverse(verts.begin(), verts.end());
    std::reverse(edges.begin(), edges.end());
    return true;
}

static void body(const symx::Case &c, const std::string &line) {
    symx::Engine *e = symx::E();
    Instance I = make_instance(c);
    symx::declare_inf(I.w);
    symx::resolve_model();
    e->case_json = "\"n\":" + std::to_string(I.topo.n) + ",\"edges\":\"" + (c.count("edges") ? c.at("edges") : "-") +
                   "\",\"sym\":\"" + (c.count("sym") ? c.at("sym") : "all") + "\",\"fixed\":\"" +
                   (c.count("fixed") ? c.at("fixed") : "") + "\",\"order\":\"" + (c.count("order") ? c.at("order") : "") + "\"";
    Graph g;
    std::vector<Edge> eidx;
    build_graph(I, g, eidx, parse_int_list(c, "order"));
    const orc::Topo &t = I.topo;
    WeightMap wm = boost::get(boost::edge_weight, g);
    auto index_map = boost::get(boost::vertex_index, g);
    int n = t.n;
    z3::context &ctx = e->ctx;

    std::vector<Tree> trees;
    trees.reserve(n);
    for (int s = 0; s < n; s++) trees.emplace_back(s, g, index_map, wm, s);

    orc::UF uf(n);
    for (auto &ed : t.edges) uf.unite(ed.first, ed.second);

    // paths[s][v] = (verts, edges)
    std::vector<std::vector<std::vector<int>>> PV(n, std::vector<std::vector<int>>(n)), PE(n, std::vector<std::vector<int>>(n));
    bool structure_ok = true;
    std::string why_all;
    bool reach_ok = true;
    for (int s = 0; s < n; s++) {
        for (int v = 0; v < n; v++) {
            bool reachable = uf.find(s) == uf.find(v);
            std::shared_ptr<Node> nd = trees[s].node(v);
            if ((nd != nullptr) != reachable) { reach_ok = false; continue; }
            if (!nd) continue;
            std::string why;
            if (!root_path(trees[s], g, t, eidx, s, v, PV[s][v], PE[s][v], why)) { structure_ok = false; why_all += why + ";"; }
        }
    }
    symx::require(reach_ok, "C12:node-exists-iff-reachable");
    symx::require(structure_ok, "C12:pred-edges-form-a-tree-rooted-at-source", why_all);
    if (!reach_ok || !structure_ok) return;

    // distances: dist(v) = weight of the root path (solver) and <= every simple path (solver)
    z3::expr dist_is_path = ctx.bool_val(true), dist_is_min = ctx.bool_val(true);
    bool first_ok = true;
    for (int s = 0; s < n; s++) {
        for (int v = 0; v < n; v++) {
            std::shared_ptr<Node> nd = trees[s].node(v);
            if (!nd) continue;
            symx::Lin walk;
            for (int ei : PE[s][v]) walk = walk.plus(I.w[ei].f);
            z3::expr d = nd->weight().expr();
            dist_is_path = dist_is_path && (d == walk.expr());
            if (v != s) {
                for (auto pm : orc::all_simple_paths(t, s, v)) {
                    symx::Lin pw;
                    for (int j = 0; j < t.m(); j++) if (pm >> j & 1) pw = pw.plus(I.w[j].f);
                    dist_is_min = dist_is_min && (d <= pw.expr());
                }
            }
            // first(v): the child of the root the path to v passes through; first(root) = root
            int exp_first = (v == s) ? s : PV[s][v][1];
            if ((int) trees[s].first(v) != exp_first) first_ok = false;
        }
    }
    symx::prove(dist_is_path, "C12:dist==weight-of-tree-path");
    symx::prove(dist_is_min, "C12:dist<=weight-of-every-simple-path");
    symx::require(first_ok, "C12:first(v)-is-the-roots-child-on-the-path");

    // cross-tree consistency
    bool rev_ok = true, sub_ok = true;
    std::string wrev, wsub;
    for (int u = 0; u < n; u++) for (int v = 0; v < n; v++) {
        if (u == v || PV[u][v].empty()) continue;
        std::vector<int> r = PV[v][u];
        std::reverse(r.begin(), r.end());
        std::vector<int> re = PE[v][u];
        std::reverse(re.begin(), re.end());
        if (r != PV[u][v] || re != PE[u][v]) { rev_ok = false; wrev = "path " + std::to_string(u) + "->" + std::to_string(v); }
        const auto &P = PV[u][v];
        for (size_t a = 0; a < P.size(); a++) for (size_t b = a + 1; b < P.size(); b++) {
            std::vector<int> sub(P.begin() + a, P.begin() + b + 1);
            if (sub != PV[P[a]][P[b]]) { sub_ok = false; wsub = "sub-path " + std::to_string(P[a]) + "->" + std::to_string(P[b]) + " of " + std::to_string(u) + "->" + std::to_string(v); }
        }
    }
    symx::require(rev_ok, "C12:tree-path(u,v)==reverse(tree-path(v,u))", wrev);
    symx::require(sub_ok, "C12:sub-paths-of-chosen-paths-are-chosen-paths", wsub);
    symx::require(!e->tainted_inf, "C07:no-arithmetic-on-infinity");
    // quantities for translation validation: distances under the model
    std::ostringstream o;
    o << "[";
    for (int s = 0; s < n; s++) {
        o << (s ? "," : "") << "[";
        for (int v = 0; v < n; v++) {
            std::shared_ptr<Node> nd = trees[s].node(v);
            o << (v ? "," : "") << "\"" << (nd ? symx::qstr(nd->weight().value()) : std::string("-")) << "\"";
        }
        o << "]";
    }
    o << "]";
    symx::note("dist", o.str());
}

int main(int argc, char **argv) {
    symx::Options o = symx::parse_args(argc, argv);
    return symx::run_cases(o, body);
}
