// C08: relational checks — two runs in ONE path over the same symbolic weights; the solver proves the stated
// relation between the two returned optimum weights for every weight assignment that follows the path.
//   rel=pair a=<algo> b=<algo>            ret_a(G) == ret_b(G)
//   rel=perm algo= perm=                  ret(G) == ret(pi(G))
//   rel=order algo= order=                ret(G) == ret(G with another edge insertion order)
//   rel=isolated|pendant|bridge algo=     ret(G) == ret(G + isolated vertex | + pendant path | + bridge to a tree)
//   rel=union algo= n2= edges2=           ret(G ⊎ H) == ret(G) + ret(H)
//   rel=subdivide algo= edge=i            ret(G with w_i = a+b) == ret(G with edge i split into two edges a, b)
//   rel=scale algo= j=                    ret(2^j w) == 2^j ret(w)
#include "common.hpp"

#include <parmcb/parmcb_sva_signed.hpp>
#include <parmcb/parmcb_sva_trees.hpp>
#include <parmcb/parmcb_sva_signed_tbb.hpp>

using namespace hx;

struct Side {
    int n = 0;
    std::vector<std::pair<int, int>> edges;
    std::vector<Real> w;
};

static std::string lin_str(const symx::Lin &l) {
    symx::Engine *e = symx::E();
    std::ostringstream o;
    for (auto &p : l.t) o << symx::qstr(p.second) << "*" << e->rnames[p.first] << "+";
    o << symx::qstr(l.k);
    return o.str();
}

static std::string side_json(const Side &s) {
    std::ostringstream o;
    o << "{\"n\":" << s.n << ",\"edges\":\"";
    for (size_t i = 0; i < s.edges.size(); i++) o << (i ? "," : "") << s.edges[i].first << "-" << s.edges[i].second;
    if (s.edges.empty()) o << "-";
    o << "\",\"w\":[";
    for (size_t i = 0; i < s.w.size(); i++) o << (i ? "," : "") << "\"" << lin_str(s.w[i].f) << "\"";
    o << "]}";
    return o.str();
}

static Real run_algo(const std::string &algo, const Side &s, const std::vector<int> &order, bool &ok, std::string &what) {
    Graph g;
    for (int v = 0; v < s.n; v++) boost::add_vertex(g);
    WeightMap wm = boost::get(boost::edge_weight, g);
    for (size_t k = 0; k < s.edges.size(); k++) {
        size_t i = order.empty() ? k : (size_t) order[k];
        Edge e = boost::add_edge(s.edges[i].first, s.edges[i].second, g).first;
        wm[e] = s.w[i];
    }
    std::list<std::list<Edge>> cycles;
    Real ret;
    ok = true;
    try {
        auto out = std::back_inserter(cycles);
        if (algo == "signed") ret = parmcb::mcb_sva_signed(g, wm, out);
        else if (algo == "fvs") ret = parmcb::mcb_sva_fvs_trees(g, wm, out);
        else if (algo == "iso") ret = parmcb::mcb_sva_iso_trees(g, wm, out);
        else if (algo == "signed_tbb") ret = parmcb::mcb_sva_signed_tbb(g, wm, out);
        else if (algo == "fvs_tbb") ret = parmcb::mcb_sva_fvs_trees_tbb(g, wm, out);
        else if (algo == "iso_tbb") ret = parmcb::mcb_sva_iso_trees_tbb(g, wm, out);
        else symx::fault("unknown algo " + algo);
    } catch (std::exception &ex) {
        ok = false;
        what = ex.what();
    }
    return ret;
}

static void body(const symx::Case &c, const std::string &line) {
    symx::Engine *e = symx::E();
    Instance I = make_instance(c);
    std::string rel = c.at("rel");
    Side A, B;
    A.n = I.topo.n;
    A.edges = I.topo.edges;
    A.w = I.w;
    B = A;
    std::string algoA = c.count("algo") ? c.at("algo") : "", algoB = algoA;
    std::vector<int> orderB;
    std::vector<Real> allw = I.w;
    symx::Lin factorA; // relation: ret(B) == scale * ret(A) + extra
    long scale = 1;
    Real extra(0);
    Side H;
    bool have_H = false;
    if (rel == "pair") {
        algoA = c.at("a");
        algoB = c.at("b");
    } else if (rel == "perm") {
        auto perm = parse_int_list(c, "perm");
        for (auto &ed : B.edges) { ed.first = perm[ed.first]; ed.second = perm[ed.second]; }
    } else if (rel == "order") {
        orderB = parse_int_list(c, "order");
    } else if (rel == "isolated") {
        B.n += 1;
    } else if (rel == "pendant") {
        int at = c.count("at") ? atoi(c.at("at").c_str()) : 0;
        if (A.n == 0) { B.n = 2; at = 0; B.edges.emplace_back(0, 1); }
        else { B.edges.emplace_back(at, B.n); B.edges.emplace_back(B.n, B.n + 1); B.n += 2; }
        while (B.w.size() < B.edges.size()) {
            if (c.count("addfixed")) B.w.push_back(Real((long) (1 + B.w.size() % 3)));
            else B.w.push_back(Real::variable("p" + std::to_string(B.w.size()), true));
            allw.push_back(B.w.back());
        }
    } else if (rel == "bridge") {
        // bridge from vertex `at` to a new star with two leaves
        int at = c.count("at") ? atoi(c.at("at").c_str()) : 0;
        if (A.n > 0) B.edges.emplace_back(at, B.n);
        B.edges.emplace_back(B.n, B.n + 1);
        B.edges.emplace_back(B.n, B.n + 2);
        B.n += 3;
        while (B.w.size() < B.edges.size()) {
            if (c.count("addfixed")) B.w.push_back(Real((long) (1 + B.w.size() % 3)));
            else B.w.push_back(Real::variable("p" + std::to_string(B.w.size()), true));
            allw.push_back(B.w.back());
        }
    } else if (rel == "union") {
        symx::Case c2;
        c2["n"] = c.at("n2");
        c2["edges"] = c.count("edges2") ? c.at("edges2") : "-";
        c2["sym"] = c.count("sym2") ? c.at("sym2") : "all";
        Instance J = make_instance(c2, "u");
        H.n = J.topo.n;
        H.edges = J.topo.edges;
        H.w = J.w;
        have_H = true;
        for (auto &x : J.w) allw.push_back(x);
        bool with_bridge = c.count("bridge") > 0;
        for (auto &ed : H.edges) B.edges.emplace_back(ed.first + A.n, ed.second + A.n);
        for (auto &x : H.w) B.w.push_back(x);
        B.n = A.n + H.n;
        if (with_bridge && A.n > 0 && H.n > 0) {
            B.edges.emplace_back(0, A.n);
            B.w.push_back(c.count("addfixed") ? Real(2) : Real::variable("br", true));
            allw.push_back(B.w.back());
        }
    } else if (rel == "subdivide") {
        int i = atoi(c.at("edge").c_str());
        Real a = Real::variable("sa", true), b = Real::variable("sb", true);
        allw.push_back(a);
        allw.push_back(b);
        A.w[i] = a + b;
        int u = A.edges[i].first, v = A.edges[i].second;
        B.w = A.w;
        B.edges[i] = std::make_pair(u, B.n);
        B.w[i] = a;
        B.edges.emplace_back(B.n, v);
        B.w.push_back(b);
        B.n += 1;
    } else if (rel == "scale") {
        int j = atoi(c.at("j").c_str());
        scale = 1L << j;
        for (auto &x : B.w) x = x * Real(scale);
        for (auto &x : B.w) allw.push_back(x);
    } else
        symx::fault("unknown rel " + rel);
    symx::declare_inf(allw);
    symx::resolve_model();
    e->case_json = "\"rel\":\"" + rel + "\",\"algoA\":\"" + algoA + "\",\"algoB\":\"" + algoB + "\",\"A\":" + side_json(A) + ",\"B\":" +
                   side_json(B) + (have_H ? ",\"H\":" + side_json(H) : std::string()) + ",\"orderB\":\"" +
                   (c.count("order") ? c.at("order") : "") + "\",\"scale\":" + std::to_string(scale);

    bool okA, okB, okH = true;
    std::string what;
    Real ra = run_algo(algoA, A, {}, okA, what);
    Real rb = run_algo(algoB, B, orderB, okB, what);
    Real rh(0);
    if (have_H) rh = run_algo(algoA, H, {}, okH, what);
    symx::require(okA && okB && okH, "C08:no-exception", what);
    if (!(okA && okB && okH)) return;
    symx::note("retA", "\"" + symx::qstr(ra.value()) + "\"");
    symx::note("retB", "\"" + symx::qstr(rb.value()) + "\"");
    z3::expr lhs = rb.expr();
    z3::expr rhs = (Real(scale) * ra + rh).expr();
    symx::prove(lhs == rhs, "C08:" + rel + ":reported-optimum-relation-holds");
    symx::require(!e->tainted_inf, "C07:no-arithmetic-on-infinity");
}

int main(int argc, char **argv) {
    symx::Options o = symx::parse_args(argc, argv);
    return symx::run_cases(o, body);
}
