// C17: SpVecGF2<symx::Int> — inductive-step / short-history checking against a dense model.
// State: three registers holding vectors built by the std::set constructor from symbolic index sets of symbolic size
// <= L (every canonical vector of at most L ones is of this form).  Then `steps` operations, each chosen symbolically.
// After every operation, for every register the solver proves: entries strictly increasing, and for a fresh
// (universally quantified) coordinate j:  j ∈ entries  <=>  dense-model(j).
#include "../symx/ints.hpp"
#include <parmcb/spvecgf2.hpp>
#include <set>

using symx::Int;
typedef parmcb::SpVecGF2<Int> Vec;

static z3::expr member(const std::vector<z3::expr> &entries, const z3::expr &j) {
    z3::expr m = j.ctx().bool_val(false);
    for (auto &x : entries) m = m || (j == x);
    return m;
}

static std::vector<z3::expr> entries_of(const Vec &v) {
    std::vector<z3::expr> r;
    for (auto it = v.begin(); it != v.end(); ++it) r.push_back(it->e);
    return r;
}

struct State {
    Vec reg[3];
    std::vector<z3::expr> dense[3]; // list of symbolic indices whose XOR-multiset defines the dense vector:
                                    // dense(j) = parity of #{x in list : x == j}
};

static z3::expr dense_member(const std::vector<z3::expr> &lst, const z3::expr &j) {
    z3::expr m = j.ctx().bool_val(false);
    for (auto &x : lst) m = (m != (j == x));
    return m;
}

static int fresh_id = 0;

static int NREG = 3;

static void check_state(State &S, const std::string &after) {
    z3::context &ctx = symx::E()->ctx;
    for (int r = 0; r < NREG; r++) {
        auto ent = entries_of(S.reg[r]);
        z3::expr inc = ctx.bool_val(true);
        for (size_t i = 0; i + 1 < ent.size(); i++) inc = inc && (ent[i] < ent[i + 1]);
        symx::prove(inc, "C17:entries-strictly-increasing", after);
        z3::expr j = ctx.int_const(("j" + std::to_string(fresh_id++)).c_str());
        symx::prove(member(ent, j) == dense_member(S.dense[r], j), "C17:entries==ones-of-dense-model", after);
        symx::require(S.reg[r].size() == ent.size(), "C17:size()==number-of-entries", after);
    }
}

static std::string g_script;

static std::set<Int> sym_set(int L, const std::string &name, std::vector<z3::expr> &lst, std::string &names) {
    int sz = symx::choose(L + 1, "size_" + name);
    std::set<Int> s;
    names.clear();
    for (int i = 0; i < sz; i++) {
        Int x = Int::variable(name + "_" + std::to_string(i));
        names += " " + name + "_" + std::to_string(i);
        symx::assume(x.e >= 0);
        s.insert(x);
    }
    symx::resolve_model();
    lst.clear();
    for (auto &x : s) lst.push_back(x.e);
    return s;
}

static const char *OPS[] = {"unit-ctor", "set-ctor", "copy-ctor", "move-ctor", "plus", "plus-assign", "dot-vector", "dot-set",
        "copy-assign", "move-assign", "clear", "self-copy-assign", "self-plus-assign", "add"};
static const int NOPS = 13; // "add" (op 13) is only run on request (C07): it is never called inside the library

static void body(const symx::Case &c, const std::string &line) {
    symx::Engine *e = symx::E();
    int L = atoi(c.at("L").c_str());
    int steps = atoi(c.at("steps").c_str());
    NREG = c.count("R") ? atoi(c.at("R").c_str()) : 3;
    e->case_json = "\"L\":" + std::to_string(L) + ",\"steps\":" + std::to_string(steps) + ",\"R\":" + std::to_string(NREG);
    z3::context &ctx = e->ctx;
    State S;
    for (int r = 0; r < NREG; r++) {
        std::string names;
        std::set<Int> s = sym_set(L, "r" + std::to_string(r), S.dense[r], names);
        S.reg[r] = Vec(s);
        g_script += "setc " + std::to_string(r) + names + ";";
    }
    check_state(S, "initial");
    std::string hist;
    for (int st = 0; st < steps; st++) {
        int op = c.count("op") && st == 0 ? atoi(c.at("op").c_str()) : symx::choose(NOPS, "op");
        // operands are chosen only where the operation uses them
        static const int uses_t[] = {1, 1, 1, 1, 1, 1, 0, 0, 1, 1, 1, 1, 1, 1};
        static const int uses_a[] = {0, 0, 1, 1, 1, 1, 1, 1, 1, 1, 0, 0, 0, 0};
        static const int uses_b[] = {0, 0, 0, 0, 1, 0, 1, 0, 0, 0, 0, 0, 0, 0};
        int t = uses_t[op] ? symx::choose(NREG, "t") : 0, a = uses_a[op] ? symx::choose(NREG, "a") : 0,
            b = uses_b[op] ? symx::choose(NREG, "b") : 0;
        std::string name = std::string(OPS[op]) + "(t=" + std::to_string(t) + ",a=" + std::to_string(a) + ",b=" + std::to_string(b) + ")";
        hist += name + ";";
        symx::crumb(g_script + " ## next: " + name + " ## " + symx::model_json());
        switch (op) {
        case 0: {
            Int x = Int::variable("u" + std::to_string(st));
            symx::assume(x.e >= 0);
            symx::resolve_model();
            Vec v(x);
            S.reg[t] = v;
            S.dense[t] = {x.e};
            g_script += "unit " + std::to_string(t) + " u" + std::to_string(st) + ";";
            break;
        }
        case 1: {
            std::vector<z3::expr> lst;
            std::string names;
            std::set<Int> s = sym_set(L, "s" + std::to_string(st), lst, names);
            g_script += "setc " + std::to_string(t) + names + ";";
            Vec v(s);
            S.reg[t] = v;
            S.dense[t] = lst;
            break;
        }
        case 2: {
            g_script += "copy " + std::to_string(t) + " " + std::to_string(a) + ";";
            Vec v(S.reg[a]);
            S.reg[t] = v;
            S.dense[t] = S.dense[a];
            break;
        }
        case 3: {
            g_script += "move " + std::to_string(t) + " " + std::to_string(a) + ";";
            Vec tmp(S.reg[a]);
            Vec v(std::move(tmp));
            S.reg[t] = v;
            S.dense[t] = S.dense[a];
            break;
        }
        case 4: {
            g_script += "plus " + std::to_string(t) + " " + std::to_string(a) + " " + std::to_string(b) + ";";
            Vec v = S.reg[a] + S.reg[b];
            auto d = S.dense[a];
            d.insert(d.end(), S.dense[b].begin(), S.dense[b].end());
            S.reg[t] = v;
            S.dense[t] = d;
            break;
        }
        case 5: {
            g_script += "pluseq " + std::to_string(t) + " " + std::to_string(a) + ";";
            auto d = S.dense[t];
            d.insert(d.end(), S.dense[a].begin(), S.dense[a].end());
            S.reg[t] += S.reg[a];
            S.dense[t] = d;
            break;
        }
        case 6: {
            int p = S.reg[a] * S.reg[b];
            g_script += "dot " + std::to_string(a) + " " + std::to_string(b) + " =" + std::to_string(p) + ";";
            // parity of common ones in the dense computation: sum over a's entries x of dense_b(x) — entries of a canonical
            // vector are distinct, so use the (already proved canonical) entry lists
            auto ea = entries_of(S.reg[a]);
            z3::expr cnt = ctx.int_val(0);
            for (auto &x : ea) cnt = cnt + z3::ite(dense_member(S.dense[b], x), ctx.int_val(1), ctx.int_val(0));
            symx::prove(z3::mod(cnt, ctx.int_val(2)) == ctx.int_val(p), "C17:dot(vector)==parity-of-common-ones", name);
            break;
        }
        case 7: {
            std::vector<z3::expr> lst;
            std::string names;
            std::set<Int> s = sym_set(L, "d" + std::to_string(st), lst, names);
            int p = S.reg[a] * s;
            g_script += "dotset " + std::to_string(a) + names + " =" + std::to_string(p) + ";";
            z3::expr cnt = ctx.int_val(0);
            for (auto &x : lst) cnt = cnt + z3::ite(dense_member(S.dense[a], x), ctx.int_val(1), ctx.int_val(0));
            symx::prove(z3::mod(cnt, ctx.int_val(2)) == ctx.int_val(p), "C17:dot(index-set)==parity-of-common-ones", name);
            break;
        }
        case 8: {
            g_script += "assign " + std::to_string(t) + " " + std::to_string(a) + ";";
            S.reg[t] = S.reg[a];
            S.dense[t] = S.dense[a];
            break;
        }
        case 9: {
            g_script += "massign " + std::to_string(t) + " " + std::to_string(a) + ";";
            Vec tmp(S.reg[a]);
            S.reg[t] = std::move(tmp);
            S.dense[t] = S.dense[a];
            break;
        }
        case 10: {
            g_script += "clear " + std::to_string(t) + ";";
            S.reg[t].clear();
            S.dense[t].clear();
            break;
        }
        case 11: {
            g_script += "selfassign " + std::to_string(t) + ";";
            Vec &self = S.reg[t];
            S.reg[t] = self;
            break;
        }
        case 13: {
            // SpVecGF2::add(pos): documented to append a position not smaller than the last one
            Int x = Int::variable("add" + std::to_string(st));
            auto ent = entries_of(S.reg[t]);
            symx::assume(x.e >= 0);
            if (!ent.empty()) symx::assume(x.e > ent.back());
            symx::resolve_model();
            g_script += "add " + std::to_string(t) + " add" + std::to_string(st) + ";";
            symx::crumb(g_script + " ## " + symx::model_json());
            S.reg[t].add(x);
            S.dense[t].push_back(x.e);
            break;
        }
        case 12: {
            g_script += "selfplus " + std::to_string(t) + ";";
            auto d = S.dense[t];
            d.insert(d.end(), S.dense[t].begin(), S.dense[t].end());
            S.reg[t] += S.reg[t];
            S.dense[t] = d;
            break;
        }
        }
        check_state(S, name);
    }
    symx::note("history", "\"" + symx::jesc(hist) + "\"");
    symx::note("script", "\"" + symx::jesc(g_script) + "\"");
    {
        std::ostringstream o;
        o << "[";
        for (int r = 0; r < NREG; r++) {
            o << (r ? "," : "") << "[";
            bool first = true;
            for (auto it = S.reg[r].begin(); it != S.reg[r].end(); ++it) {
                o << (first ? "" : ",") << "\"" << symx::jesc(e->model->eval(it->e, true).to_string()) << "\"";
                first = false;
            }
            o << "]";
        }
        o << "]";
        symx::note("final", o.str());
    }
}

int main(int argc, char **argv) {
    symx::Options o = symx::parse_args(argc, argv);
    return symx::run_cases(o, body);
}
