// C18: fp<T>, primes<T>, SpVecFP<P> instantiated with symx::BV<BVW> (two's-complement, C++ division semantics).
//   what=gcd      both operands symbolic (|a|,|b| <= 2^(W-1)-1, not both zero)
//   what=gcdc     a symbolic, b = constant `mod`
//   what=inv      get_mult_inverse(a, p): p = constant `mod` (or symbolic prime-free small p when mod=sym)
//   what=prime    is_prime(p), 2 <= p < 2^(W-1)
//   what=spvecfp  SpVecFP<BV<W>> against a dense model modulo p
#include "../symx/ints.hpp"

#include <cassert>
#include <cmath>
#include <stdexcept>
#include <vector>
#include <boost/tuple/tuple.hpp>
#include <parmcb/fp.hpp>
#include <parmcb/spvecfp.hpp>

#ifndef BVW
#define BVW 8
#endif

typedef symx::BV<BVW> T;

static z3::expr wide(const z3::expr &x) { return z3::sext(x, BVW); } // to 2*BVW bits
static z3::expr bvv(long v, unsigned w) { return symx::E()->ctx.bv_val((int64_t) v, w); }

static void gcd_obligations(const z3::expr &a0, const z3::expr &b0, const T &g, const T &x, const T &y, const std::string &tag) {
    z3::context &ctx = symx::E()->ctx;
    symx::prove(g.e > bvv(0, BVW), tag + "g>0");
    z3::expr gw = wide(g.e);
    auto srem = [&](const z3::expr &p, const z3::expr &q) { return z3::expr(ctx, Z3_mk_bvsrem(ctx, p, q)); };
    symx::prove(z3::implies(g.e != bvv(0, BVW), srem(a0, g.e) == bvv(0, BVW) && srem(b0, g.e) == bvv(0, BVW)), tag + "g-divides-a-and-b");
    symx::prove(wide(a0) * wide(x.e) + wide(b0) * wide(y.e) == gw, tag + "a*x+b*y==g");
}

static void do_gcd(const symx::Case &c, bool constant_b) {
    z3::context &ctx = symx::E()->ctx;
    T a = T::variable("a"), b = constant_b ? T(atol(c.at("mod").c_str())) : T::variable("b");
    long lim = (1L << (BVW - 1)) - 1;
    if (c.count("lim")) lim = atol(c.at("lim").c_str());
    symx::assume(a.e >= bvv(-lim, BVW) && a.e <= bvv(lim, BVW));
    if (!constant_b) symx::assume(b.e >= bvv(-lim, BVW) && b.e <= bvv(lim, BVW));
    symx::assume(!(a.e == bvv(0, BVW) && b.e == bvv(0, BVW)));
    symx::resolve_model();
    z3::expr a0 = a.e, b0 = b.e;
    T x, y;
    T g = parmcb::fp<T>::ext_gcd(a, b, x, y);
    symx::note("g", "\"" + symx::jesc(symx::E()->model->eval(g.e, true).to_string()) + "\"");
    gcd_obligations(a0, b0, g, x, y, "C18:ext_gcd:");
}

static void do_inv(const symx::Case &c) {
    z3::context &ctx = symx::E()->ctx;
    long lim = (1L << (BVW - 1)) - 1;
    if (c.count("lim")) lim = atol(c.at("lim").c_str());
    T a = T::variable("a");
    T p = c.at("mod") == "sym" ? T::variable("p") : T(atol(c.at("mod").c_str()));
    symx::assume(a.e >= bvv(-lim, BVW) && a.e <= bvv(lim, BVW));
    if (c.at("mod") == "sym") symx::assume(p.e >= bvv(2, BVW) && p.e <= bvv(lim, BVW));
    symx::resolve_model();
    z3::expr a0 = a.e, p0 = p.e;
    bool threw = false;
    T r;
    try {
        r = parmcb::fp<T>::get_mult_inverse(a, p);
    } catch (...) {
        threw = true;
    }
    // coprime  <=>  exists no common divisor d >= 2
    auto srem = [&](const z3::expr &u, const z3::expr &v) { return z3::expr(ctx, Z3_mk_bvsrem(ctx, u, v)); };
    z3::expr d = ctx.bv_const("d_common", BVW);
    z3::expr has_common = d >= bvv(2, BVW) && srem(a0, d) == bvv(0, BVW) && srem(p0, d) == bvv(0, BVW);
    if (threw) {
        // must not be coprime: a == 0 (gcd = p >= 2) or a common divisor exists.  "no common divisor" must be impossible:
        // encode as: for THIS path there is a witness — every model has a common divisor.  We prove the contrapositive
        // with the Bezout certificate being unavailable, so use a direct bounded search: exists d is checked per model;
        // for the universal claim we assert that gcd(a,p)=1 (certified by some x,y with a*x+p*y=1) is infeasible.
        z3::expr x = ctx.bv_const("bx", 2 * BVW), y = ctx.bv_const("by", 2 * BVW);
        z3::expr lim2 = bvv(lim, 2 * BVW);
        z3::expr bez = wide(a0) * x + wide(p0) * y == bvv(1, 2 * BVW) && x >= -lim2 && x <= lim2 && y >= -lim2 && y <= lim2;
        symx::prove(!bez, "C18:get_mult_inverse:throws-only-when-not-coprime");
    } else {
        symx::prove(!has_common, "C18:get_mult_inverse:returns-only-when-coprime");
        symx::prove(srem(wide(a0) * wide(r.e) - bvv(1, 2 * BVW), wide(p0)) == bvv(0, 2 * BVW), "C18:get_mult_inverse:a*ret==1(mod p)");
    }
    symx::note("threw", threw ? "true" : "false");
}

static void do_prime(const symx::Case &c) {
    z3::context &ctx = symx::E()->ctx;
    T p = T::variable("p");
    long hi = (1L << (BVW - 1)) - 1;
    if (c.count("lim")) hi = atol(c.at("lim").c_str());
    symx::assume(p.e >= bvv(2, BVW) && p.e <= bvv(hi, BVW));
    symx::resolve_model();
    bool r = parmcb::primes<T>::is_prime(p);
    z3::expr d = ctx.bv_const("d_div", 2 * BVW), q = ctx.bv_const("q_div", 2 * BVW);
    z3::expr two = bvv(2, 2 * BVW), top = bvv(hi, 2 * BVW);
    z3::expr composite = d >= two && q >= two && d <= top && q <= top && d * q == wide(p.e);
    if (r) symx::prove(!composite, "C18:is_prime:true-only-for-primes");
    else {
        // false must mean composite: p is not prime <=> exists divisor.  Universal claim over the path: no model of the path is prime.
        // primality of p = forall d in [2,p): p % d != 0 — checked by asking the solver for a model of the PC in which p is prime,
        // using the (finite) list of primes below the bound as the oracle.
        z3::expr is_p = ctx.bool_val(false);
        for (long v = 2; v <= hi; v++) {
            bool prime = true;
            for (long k = 2; k * k <= v; k++) if (v % k == 0) { prime = false; break; }
            if (prime) is_p = is_p || (p.e == bvv(v, BVW));
        }
        symx::prove(!is_p, "C18:is_prime:false-only-for-composites");
    }
    symx::note("result", r ? "true" : "false");
}

// ---- SpVecFP -------------------------------------------------------------------------------------------------
typedef parmcb::SpVecFP<T> FV;

struct Dense {
    std::map<std::size_t, z3::expr> co; // index -> coefficient as a mathematical integer expression (z3 Int)
};

// dense coefficients live in 4*BVW-bit arithmetic (no wrap-around for the sizes explored)
static z3::expr bv2int_signed(const z3::expr &b) { return z3::sext(b, 3 * BVW); }
static z3::expr wzero() { return bvv(0, 4 * BVW); }
static z3::expr smodp(const z3::expr &x, long p) {
    z3::context &ctx = symx::E()->ctx;
    return z3::expr(ctx, Z3_mk_bvsmod(ctx, x, bvv(p, 4 * BVW)));
}

static void check_fv(const FV &v, const Dense &d, long p, const std::string &after) {
    z3::context &ctx = symx::E()->ctx;
    bool order_ok = true;
    std::size_t last = 0;
    bool first = true;
    std::set<std::size_t> present;
    z3::expr range = ctx.bool_val(true), agree = ctx.bool_val(true);
    for (auto it = v.begin(); it != v.end(); ++it) {
        std::size_t idx = boost::get<0>(*it);
        T val = boost::get<1>(*it);
        if (!first && idx <= last) order_ok = false;
        first = false;
        last = idx;
        present.insert(idx);
        range = range && (val.e >= bvv(1, BVW)) && (val.e <= bvv(p - 1, BVW));
        auto f = d.co.find(idx);
        z3::expr coef = f == d.co.end() ? wzero() : f->second;
        agree = agree && (smodp(coef - bv2int_signed(val.e), p) == wzero());
    }
    for (auto &kv : d.co) if (!present.count(kv.first)) agree = agree && (smodp(kv.second, p) == wzero());
    symx::require(order_ok, "C18:spvecfp:indices-strictly-increasing", after);
    symx::prove(range, "C18:spvecfp:entries-in-1..p-1", after);
    symx::prove(agree, "C18:spvecfp:entries==nonzero-coordinates-of-dense-model-mod-p", after);
    symx::require(v.size() == present.size(), "C18:spvecfp:size", after);
}

static std::string g_script;

static void do_spvecfp(const symx::Case &c) {
    z3::context &ctx = symx::E()->ctx;
    long p = atol(c.at("p").c_str());
    int L = atoi(c.at("L").c_str());
    long slim = c.count("slim") ? atol(c.at("slim").c_str()) : ((1L << (BVW - 1)) - 1);
    int seq = 0;
    std::string last_scalar;
    auto scalar = [&](const std::string &nm) {
        last_scalar = nm + std::to_string(seq);
        T s = T::variable(nm + std::to_string(seq++));
        symx::assume(s.e >= bvv(-slim, BVW) && s.e <= bvv(slim, BVW));
        symx::resolve_model();
        return s;
    };
    // pre-state: v_r = sum over a symbolic number (<= L) of terms  c * e_idx  with idx chosen among 0..L
    auto build = [&](const std::string &nm, Dense &d) {
        FV v{T(p)};
        int terms = symx::choose(L + 1, "terms_" + nm);
        for (int k = 0; k < terms; k++) {
            std::size_t idx = (std::size_t) symx::choose(L + 1, "idx_" + nm);
            T cf = scalar("c_" + nm);
            g_script += std::string("term ") + (nm == "a" ? "0" : "1") + " " + std::to_string(idx) + " " + last_scalar + ";";
            FV u{T(p)};
            u = idx;
            v = v + u * cf;
            auto f = d.co.find(idx);
            z3::expr add = bv2int_signed(cf.e);
            if (f == d.co.end()) d.co.insert(std::make_pair(idx, add)); else f->second = f->second + add;
        }
        return v;
    };
    Dense da, db;
    FV a = build("a", da);
    check_fv(a, da, p, "build a");
    FV b = build("b", db);
    check_fv(b, db, p, "build b");
    int op = c.count("op") ? atoi(c.at("op").c_str()) : symx::choose(6, "op");
    static const char *names[] = {"plus", "scale", "dot", "plus-assign", "scale-assign", "copy/move-assign"};
    std::string nm = names[op];
    switch (op) {
    case 0: {
        g_script += "plus;";
        FV r = a + b;
        Dense dr = da;
        for (auto &kv : db.co) { auto f = dr.co.find(kv.first); if (f == dr.co.end()) dr.co.insert(kv); else f->second = f->second + kv.second; }
        check_fv(r, dr, p, nm);
        break;
    }
    case 1: {
        T s = scalar("s");
        g_script += "scale " + last_scalar + ";";
        FV r = a * s;
        Dense dr;
        for (auto &kv : da.co) dr.co.insert(std::make_pair(kv.first, kv.second * bv2int_signed(s.e)));
        check_fv(r, dr, p, nm);
        break;
    }
    case 2: {
        g_script += "dot;";
        T r = a * b;
        z3::expr sum = wzero();
        for (auto &kv : da.co) { auto f = db.co.find(kv.first); if (f != db.co.end()) sum = sum + kv.second * f->second; }
        symx::prove(smodp(sum - bv2int_signed(r.e), p) == wzero() && r.e >= bvv(0, BVW) && r.e < bvv(p, BVW),
                "C18:spvecfp:dot==sum-of-products-mod-p");
        break;
    }
    case 3: {
        g_script += "pluseq;";
        a += b;
        for (auto &kv : db.co) { auto f = da.co.find(kv.first); if (f == da.co.end()) da.co.insert(kv); else f->second = f->second + kv.second; }
        check_fv(a, da, p, nm);
        break;
    }
    case 4: {
        T s = scalar("s");
        g_script += "scaleeq " + last_scalar + ";";
        a *= s;
        for (auto &kv : da.co) kv.second = kv.second * bv2int_signed(s.e);
        check_fv(a, da, p, nm);
        break;
    }
    case 5: {
        g_script += "assign;";
        FV t1{T(p)};
        t1 = a;
        check_fv(t1, da, p, "copy-assign");
        FV t2(b);
        FV t3{T(p)};
        t3 = std::move(t2);
        check_fv(t3, db, p, "move-assign");
        FV &self = t3;
        t3 = self;
        check_fv(t3, db, p, "self-assign");
        t3.clear();
        check_fv(t3, Dense(), p, "clear");
        break;
    }
    }
}

static void body(const symx::Case &c, const std::string &line) {
    symx::Engine *e = symx::E();
    e->fresh_mode = true;
    std::string what = c.at("what");
    T::monitor() = c.count("monitor") > 0;
    e->case_json = "\"what\":\"" + what + "\",\"W\":" + std::to_string(BVW) + ",\"mod\":\"" + (c.count("mod") ? c.at("mod") : "") + "\",\"p\":\"" +
                   (c.count("p") ? c.at("p") : "") + "\"";
    if (what == "gcd") do_gcd(c, false);
    else if (what == "gcdc") do_gcd(c, true);
    else if (what == "inv") do_inv(c);
    else if (what == "prime") do_prime(c);
    else if (what == "spvecfp") { do_spvecfp(c); symx::note("script", "\"" + symx::jesc(g_script) + "\""); }
    else symx::fault("unknown what");
    symx::require(!symx::IntEvents::div_by_zero(), "C18:no-division-by-zero");
    if (T::monitor()) symx::require(!symx::IntEvents::overflow(), "C18:no-signed-overflow(built-in integer types)");
}

int main(int argc, char **argv) {
    symx::Options o = symx::parse_args(argc, argv);
    return symx::run_cases(o, body);
}
