// C03: the TBB-parallel entry points compiled against the scheduler shim; every scheduling decision is symbolic.
//   algo=signed_tbb|fvs_tbb|iso_tbb|approx_signed_tbb|approx_fvs_tbb|approx_iso_tbb [k=] lmax=<L>
// parallel_reduce: ALL schedules of a range of length <= lmax (every partition into leaves, every grouping of leaves
// into runs folded from the identity, every order-preserving join tree) are evaluated side by side inside one path;
// the solver proves they agree on `found` and on the weight; execution continues with a symbolic choice among the
// distinct results.  Longer ranges use a reduced schedule set.  parallel_for: symbolic choice of chunking and order.
#include "common.hpp"

#include <parmcb/parmcb_sva_signed_tbb.hpp>
#include <parmcb/parmcb_sva_trees.hpp>
#include <parmcb/parmcb_approx_sva_signed_tbb.hpp>
#include <parmcb/parmcb_approx_sva_trees_tbb.hpp>

using namespace hx;
using tbbshim::ReduceSchedule;

static std::size_t g_lmax = 3;
static long g_reduces = 0, g_schedules = 0, g_fors = 0;
static std::size_t g_max_alts = 0;
static int g_choice_budget = 3;   // symbolic scheduling choices per path; afterwards a seeded pseudo-random alternative is taken
static unsigned g_seed = 1, g_choice_seq = 0;

static int sched_choose(int n, const std::string &label) {
    if (n <= 1) return 0;
    g_choice_seq++;
    if (g_choice_budget > 0) { g_choice_budget--; return symx::choose(n, label); }
    unsigned h = g_seed * 2654435761u + g_choice_seq * 40503u;
    h ^= h >> 13; h *= 0x5bd1e995u; h ^= h >> 15;
    return (int) (h % (unsigned) n);
}

static void compositions(std::size_t L, std::vector<std::vector<std::size_t>> &out) {
    // all ways to cut [0,L) into contiguous non-empty pieces (as lists of piece lengths)
    for (std::size_t mask = 0; mask < (std::size_t(1) << (L - 1)); mask++) {
        std::vector<std::size_t> c;
        std::size_t len = 1;
        for (std::size_t i = 0; i + 1 < L; i++) {
            if (mask >> i & 1) { c.push_back(len); len = 1; } else len++;
        }
        c.push_back(len);
        out.push_back(c);
    }
}

// all join orders (as sequences of adjacent-pair positions) for r runs: every binary bracketing appears at least once
static void join_orders(std::size_t r, std::vector<int> cur, std::vector<std::vector<int>> &out) {
    if (r <= 1) { out.push_back(cur); return; }
    for (std::size_t p = 0; p + 1 < r; p++) {
        std::vector<int> nx = cur;
        nx.push_back((int) p);
        join_orders(r - 1, nx, out);
    }
}

struct SymSched : tbbshim::Scheduler {
    std::vector<std::pair<std::size_t, std::size_t>> for_schedule(std::size_t L) override {
        g_fors++;
        std::vector<std::vector<std::pair<std::size_t, std::size_t>>> alts;
        auto chunks_of = [](const std::vector<std::size_t> &comp) {
            std::vector<std::pair<std::size_t, std::size_t>> ch;
            std::size_t b = 0;
            for (auto l : comp) { ch.emplace_back(b, b + l); b += l; }
            return ch;
        };
        if (L <= 3) {
            std::vector<std::vector<std::size_t>> comps;
            compositions(L, comps);
            for (auto &c : comps) {
                auto ch = chunks_of(c);
                std::sort(ch.begin(), ch.end());
                do alts.push_back(ch); while (std::next_permutation(ch.begin(), ch.end()));
            }
        } else {
            std::vector<std::pair<std::size_t, std::size_t>> whole{{0, L}}, fwd, rev, inter, halves;
            for (std::size_t i = 0; i < L; i++) fwd.emplace_back(i, i + 1);
            rev = fwd;
            std::reverse(rev.begin(), rev.end());
            for (std::size_t i = 0; i < L; i += 2) inter.emplace_back(i, i + 1);
            for (std::size_t i = 1; i < L; i += 2) inter.emplace_back(i, i + 1);
            halves.emplace_back(L / 2, L);
            halves.emplace_back(0, L / 2);
            alts = {whole, fwd, rev, inter, halves};
        }
        int pick = sched_choose((int) alts.size(), "for" + std::to_string(L));
        return alts[pick];
    }
    std::vector<ReduceSchedule> all_reduce_schedules(std::size_t L) override {
        g_reduces++;
        std::vector<ReduceSchedule> out;
        auto add = [&](const std::vector<std::size_t> &comp, std::size_t runmask, const std::vector<int> &join) {
            ReduceSchedule s;
            std::size_t b = 0;
            for (auto l : comp) { s.leaves.emplace_back(b, b + l); b += l; }
            s.run_start.push_back(0);
            for (std::size_t i = 1; i < comp.size(); i++) if (runmask >> (i - 1) & 1) s.run_start.push_back(i);
            s.join = join;
            out.push_back(s);
        };
        if (L <= g_lmax) {
            std::vector<std::vector<std::size_t>> comps;
            compositions(L, comps);
            for (auto &c : comps) {
                for (std::size_t rm = 0; rm < (std::size_t(1) << (c.size() - 1)); rm++) {
                    std::size_t runs = 1 + (std::size_t) __builtin_popcountll(rm);
                    std::vector<std::vector<int>> jo;
                    join_orders(runs, {}, jo);
                    // distinct bracketings only: canonicalise by the multiset of merges is overkill; runs <= 4 here
                    std::set<std::vector<int>> seen;
                    for (auto &j : jo) if (seen.insert(j).second) add(c, rm, j);
                }
            }
        } else {
            std::vector<std::size_t> whole{L}, singles(L, 1), halves{L / 2, L - L / 2};
            add(whole, 0, {});
            std::size_t allruns = (std::size_t(1) << (L - 1)) - 1;
            std::vector<int> left(L - 1, 0), right;
            for (std::size_t i = 0; i + 1 < L; i++) right.push_back((int) (L - 2 - i));
            add(singles, allruns, left);   // every leaf its own run, left-deep joins
            add(singles, allruns, right);  // right-deep joins
            add(singles, 0, {});           // one run over singleton leaves (running value threads through)
            add(halves, 1, {0});
            add(halves, 0, {});
        }
        g_schedules += (long) out.size();
        g_max_alts = std::max(g_max_alts, out.size());
        return out;
    }
    std::size_t pick(std::size_t n) override { (void) n; return picked; }
    std::size_t picked = 0;
};

static SymSched g_sched;

typedef std::tuple<std::set<Edge>, Real, bool> CycleT;

static void agree_cycles(const std::vector<CycleT> &res, const std::vector<ReduceSchedule> &alts) {
    z3::context &ctx = symx::E()->ctx;
    bool found0 = std::get<2>(res[0]);
    bool same_found = true;
    z3::expr same_w = ctx.bool_val(true);
    for (auto &r : res) {
        if (std::get<2>(r) != found0) same_found = false;
        if (found0 && std::get<2>(r)) same_w = same_w && (std::get<1>(r).expr() == std::get<1>(res[0]).expr());
    }
    symx::require(same_found, "C03:all-reduce-schedules-agree-on-found");
    symx::prove(same_w, "C03:all-reduce-schedules-agree-on-the-weight");
    // continue with a symbolic choice among the distinct edge sets any schedule can return
    std::vector<std::size_t> distinct;
    for (std::size_t i = 0; i < res.size(); i++) {
        bool dup = false;
        for (auto j : distinct) if (std::get<0>(res[j]) == std::get<0>(res[i])) dup = true;
        if (!dup) distinct.push_back(i);
    }
    g_sched.picked = distinct[(std::size_t) sched_choose((int) distinct.size(), "result")];
}

static void agree_reals(const std::vector<Real> &res, const std::vector<ReduceSchedule> &alts) {
    z3::expr same = symx::E()->ctx.bool_val(true);
    for (auto &r : res) same = same && (r.expr() == res[0].expr());
    symx::prove(same, "C03:all-reduce-schedules-agree-on-the-sum");
    g_sched.picked = 0;
}

static void body(const symx::Case &c, const std::string &line) {
    symx::Engine *e = symx::E();
    Instance I = make_instance(c);
    symx::declare_inf(I.w);
    symx::resolve_model();
    std::string algo = c.at("algo");
    std::size_t k = c.count("k") ? (std::size_t) atol(c.at("k").c_str()) : 1;
    g_lmax = c.count("lmax") ? (std::size_t) atol(c.at("lmax").c_str()) : 3;
    g_choice_budget = c.count("cb") ? atoi(c.at("cb").c_str()) : 3;
    g_seed = c.count("seed") ? (unsigned) atol(c.at("seed").c_str()) : 1;
    e->case_json = "\"algo\":\"" + algo + "\",\"k\":" + std::to_string(k) + ",\"n\":" + std::to_string(I.topo.n) + ",\"edges\":\"" +
                   (c.count("edges") ? c.at("edges") : "-") + "\",\"sym\":\"" + (c.count("sym") ? c.at("sym") : "all") +
                   "\",\"fixed\":\"" + (c.count("fixed") ? c.at("fixed") : "") + "\",\"lmax\":" + std::to_string(g_lmax) + ",\"cb\":" + std::to_string(g_choice_budget) + ",\"seed\":" + std::to_string(g_seed);
    tbbshim::sched() = &g_sched;
    tbbshim::Agree<CycleT>::hook() = agree_cycles;
    tbbshim::Agree<Real>::hook() = agree_reals;

    Graph g;
    std::vector<Edge> eidx;
    build_graph(I, g, eidx);
    const orc::Topo &t = I.topo;
    WeightMap wm = boost::get(boost::edge_weight, g);
    e->case_json += ",\"layout\":\"" + address_order(g, eidx) + "\"";
    std::list<std::list<Edge>> cycles;
    Real ret;
    bool threw = false;
    std::string what;
    bool approx = algo.rfind("approx_", 0) == 0;
    try {
        auto out = std::back_inserter(cycles);
        if (algo == "signed_tbb") ret = parmcb::mcb_sva_signed_tbb(g, wm, out);
        else if (algo == "fvs_tbb") ret = parmcb::mcb_sva_fvs_trees_tbb(g, wm, out);
        else if (algo == "iso_tbb") ret = parmcb::mcb_sva_iso_trees_tbb(g, wm, out);
        else if (algo == "approx_signed_tbb") ret = parmcb::approx_mcb_sva_signed_tbb(g, wm, k, out);
        else if (algo == "approx_fvs_tbb") ret = parmcb::approx_mcb_sva_fvs_trees_tbb(g, wm, k, out);
        else if (algo == "approx_iso_tbb") ret = parmcb::approx_mcb_sva_iso_trees_tbb(g, wm, k, out);
        else symx::fault("unknown algo " + algo);
    } catch (std::exception &ex) {
        threw = true;
        what = ex.what();
    }
    symx::require(!threw, "C03:no-exception", what);
    if (threw) return;
    std::vector<std::vector<int>> cyc;
    std::string why;
    bool mapped = to_indices(cycles, eidx, cyc, why);
    symx::require(mapped, "C03:edges-belong-to-callers-graph", why);
    if (!mapped) return;
    symx::note("cycles", cycles_json(cyc));
    symx::note("N", std::to_string(cyc.size()));
    symx::note("ret", "\"" + symx::qstr(ret.value()) + "\"");
    symx::note("reduces", std::to_string(g_reduces));
    symx::note("schedules", std::to_string(g_schedules));
    symx::note("max_alts", std::to_string(g_max_alts));
    bool valid = check_basis_validity(t, cyc, "C03:");
    symx::prove(ret.expr() == lin_of_cycles(cyc, I.w).expr(), "C03:ret==weight-of-emitted-cycles");
    if (valid) {
        if (!approx || k == 1) prove_minimal(cyc, I.w, t.m(), "C03:");
        else if (cyc.size() <= 4) prove_no_lighter_basis(cyc, I.w, t.m(), (long) (2 * k - 1), ret.expr(), "C03:ret<=(2k-1)*OPT");
    }
    symx::require(!e->tainted_inf, "C07:no-arithmetic-on-infinity");
}

int main(int argc, char **argv) {
    symx::Options o = symx::parse_args(argc, argv);
    return symx::run_cases(o, body);
}
