// C05 / C06 / C15: the sequential approximate algorithms and the intermediate spanner, symbolic weights.
//   algo=approx_signed|approx_fvs|approx_iso k=K   → C05, C06 obligations after the call has returned
//   algo=spanner k=K                                → C15 obligations on BaseApproxSpannerAlgorithm (hook)
#include "common.hpp"

#include <parmcb/parmcb_approx_sva_signed.hpp>
#include <parmcb/parmcb_approx_sva_trees.hpp>

using namespace hx;

static void check_spanner(const symx::Case &c, const Instance &I, const orc::Topo &t, Graph &g, std::vector<Edge> &eidx,
        std::size_t k) {
    typedef std::back_insert_iterator<std::list<std::list<Edge>>> Out;
    typedef parmcb::detail::mcb_sva_signed<Graph, WeightMap, Out> Exact;
    WeightMap wm = boost::get(boost::edge_weight, g);
    parmcb::detail::BaseApproxSpannerAlgorithm<Graph, WeightMap, Exact, false> algo(g, wm, boost::get(boost::vertex_index, g), k);
    const Graph &sp = algo.verif_spanner();
    const auto &emap = algo.verif_edge_spanner_to_g();
    const auto &dropped = algo.verif_non_spanner_edges();
    int m = t.m();
    auto index_of = [&](const Edge &e) { for (int i = 0; i < m; i++) if (eidx[i] == e) return i; return -1; };

    // retained / dropped partition
    std::vector<int> state(m, 0); // 1 retained, 2 dropped
    bool part_ok = true;
    std::string why;
    bool endpoints_ok = true, weights_ok_struct = true;
    z3::context &ctx = symx::E()->ctx;
    z3::expr weq = ctx.bool_val(true);
    auto spw = boost::get(boost::edge_weight, sp);
    std::size_t nsp = 0;
    for (auto se : boost::make_iterator_range(boost::edges(sp))) {
        nsp++;
        auto it = emap.find(se);
        if (it == emap.end()) { part_ok = false; why += "spanner edge without translation;"; continue; }
        int i = index_of(it->second);
        if (i < 0) { part_ok = false; why += "translation is not an input edge;"; continue; }
        if (state[i]) { part_ok = false; why += "input edge retained twice;"; }
        state[i] = 1;
        int a = (int) boost::source(se, sp), b = (int) boost::target(se, sp);
        int x = t.edges[i].first, y = t.edges[i].second;
        if (!((a == x && b == y) || (a == y && b == x))) endpoints_ok = false;
        weq = weq && (boost::get(spw, se).expr() == I.w[i].expr());
    }
    for (auto &e : dropped) {
        int i = index_of(e);
        if (i < 0) { part_ok = false; why += "dropped edge is not an input edge;"; continue; }
        if (state[i]) { part_ok = false; why += "edge both retained and dropped (or dropped twice);"; }
        state[i] = 2;
    }
    for (int i = 0; i < m; i++) if (!state[i]) { part_ok = false; why += "edge neither retained nor dropped;"; }
    symx::require(part_ok && nsp == emap.size(), "C15:retained-and-dropped-partition-E", why);
    symx::require(boost::num_vertices(sp) == (std::size_t) t.n && endpoints_ok, "C15:spanner-is-subgraph(same endpoints)");
    (void) weights_ok_struct;
    symx::prove(weq, "C15:spanner-edges-carry-the-input-weights");
    if (!part_ok) return;

    // retained subgraph as a topology
    orc::Topo rt;
    rt.n = t.n;
    std::vector<int> rmap; // retained topo edge -> original index
    for (int i = 0; i < m; i++) if (state[i] == 1) { rt.edges.push_back(t.edges[i]); rmap.push_back(i); }
    // girth > 2k
    bool girth_ok = true;
    for (auto cm : orc::all_simple_cycles(rt)) if ((std::size_t) __builtin_popcountll(cm) <= 2 * k) girth_ok = false;
    symx::require(girth_ok, "C15:retained-girth>2k");
    // every dropped edge has a short path of no-heavier retained edges
    for (int i = 0; i < m; i++) if (state[i] == 2) {
        auto paths = orc::all_simple_paths(rt, t.edges[i].first, t.edges[i].second);
        z3::expr none = ctx.bool_val(true); // "no path works"
        for (auto pm : paths) {
            if ((std::size_t) __builtin_popcountll(pm) > 2 * k - 1) continue;
            z3::expr heavier = ctx.bool_val(false);
            for (int j = 0; j < rt.m(); j++) if (pm >> j & 1) heavier = heavier || (I.w[rmap[j]].expr() > I.w[i].expr());
            none = none && heavier;
        }
        symx::prove(!none, "C15:dropped-edge-has-path<=2k-1-of-no-heavier-retained-edges", "edge " + std::to_string(i));
    }
    symx::note("retained", std::to_string(rt.m()));
    {
        std::string rs = "[";
        for (size_t j = 0; j < rmap.size(); j++) rs += (j ? "," : "") + std::to_string(rmap[j]);
        symx::note("retained_set", rs + "]");
    }
}

static void body(const symx::Case &c, const std::string &line) {
    symx::Engine *e = symx::E();
    Instance I = make_instance(c);
    symx::declare_inf(I.w);
    symx::resolve_model();
    std::string algo = c.at("algo");
    std::size_t k = (std::size_t) atol(c.at("k").c_str());
    e->case_json = "\"algo\":\"" + algo + "\",\"k\":" + std::to_string(k) + ",\"n\":" + std::to_string(I.topo.n) + ",\"edges\":\"" +
                   (c.count("edges") ? c.at("edges") : "-") + "\",\"sym\":\"" + (c.count("sym") ? c.at("sym") : "all") +
                   "\",\"fixed\":\"" + (c.count("fixed") ? c.at("fixed") : "") + "\",\"order\":\"" +
                   (c.count("order") ? c.at("order") : "") + "\",\"perm\":\"" + (c.count("perm") ? c.at("perm") : "") + "\"";
    Graph g;
    std::vector<Edge> eidx;
    build_graph(I, g, eidx, parse_int_list(c, "order"), parse_int_list(c, "perm"));
    orc::Topo t = I.topo;
    {
        auto perm = parse_int_list(c, "perm");
        if (!perm.empty()) for (auto &ed : t.edges) { ed.first = perm[ed.first]; ed.second = perm[ed.second]; }
    }
    WeightMap wm = boost::get(boost::edge_weight, g);
    e->case_json += ",\"layout\":\"" + address_order(g, eidx) + "\"";

    if (algo == "spanner") {
        check_spanner(c, I, t, g, eidx, k);
        return;
    }

    std::list<std::list<Edge>> cycles;
    Real ret;
    bool threw = false, threw_runtime = false;
    std::string what;
    try {
        auto out = std::back_inserter(cycles);
        if (algo == "approx_signed") ret = parmcb::approx_mcb_sva_signed(g, wm, k, out);
        else if (algo == "approx_fvs") ret = parmcb::approx_mcb_sva_fvs_trees(g, wm, k, out);
        else if (algo == "approx_iso") ret = parmcb::approx_mcb_sva_iso_trees(g, wm, k, out);
        else symx::fault("unknown algo " + algo);
    } catch (std::runtime_error &ex) {
        threw = threw_runtime = true;
        what = ex.what();
    } catch (std::exception &ex) {
        threw = true;
        what = ex.what();
    }
    if (k == 0) {
        symx::require(threw_runtime, "C06:k=0-rejected-with-exception", what);
        symx::require(cycles.empty(), "C06:k=0-emits-nothing");
        return;
    }
    symx::require(!threw, "C05:no-exception", what);
    if (threw) return;

    // the algorithm object and its private spanner are gone now; everything below uses the caller's graph only
    std::vector<std::vector<int>> cyc;
    std::string why;
    bool mapped = to_indices(cycles, eidx, cyc, why);
    symx::require(mapped, "C05:descriptors-belong-to-callers-graph", why);
#ifdef SYMX_SANITIZED
    // C07: dereference every returned descriptor through the caller's weight map (use-after-free is an ASan report)
    {
        volatile std::size_t sink = 0;
        for (auto &cy : cycles) for (auto &ed : cy) sink += boost::get(wm, ed).f.t.size();
        (void) sink;
    }
#endif
    if (!mapped) return;
    symx::note("cycles", cycles_json(cyc));
    symx::note("N", std::to_string(cyc.size()));
    symx::note("ret", "\"" + symx::qstr(ret.value()) + "\"");
    bool valid = check_basis_validity(t, cyc, "C05:");
    symx::prove(ret.expr() == lin_of_cycles(cyc, I.w).expr(), "C05:ret==weight-of-emitted-cycles-under-callers-map");
    if (valid) {
        // C06: no cycle basis B' with (2k-1)*w(B') < ret  (every basis is an invertible GF(2) transform of the emitted one)
        if (cyc.size() <= 4)   // the matrix form has 2*N^2 booleans; N = 5 costs seconds per leaf (bound stated in the evidence)
            prove_no_lighter_basis(cyc, I.w, t.m(), (long) (2 * k - 1), ret.expr(), "C06:ret<=(2k-1)*OPT(invertible-matrix form)");
        if (k == 1) prove_minimal(cyc, I.w, t.m(), "C06:k=1-minimal");
    }
    symx::require(!e->tainted_inf, "C07:no-arithmetic-on-infinity");
}

int main(int argc, char **argv) {
    symx::Options o = symx::parse_args(argc, argv);
    return symx::run_cases(o, body);
}
