// C04: the MPI entry points compiled against the in-process SPMD simulator (shim/mpi) and the TBB shim.
//   algo=signed_mpi|fvs_mpi|fvs_tbb_mpi|iso_mpi|iso_tbb_mpi P=<ranks> layout=same|sym n= edges= ...
// Every rank gets its own copy of the graph.  The relative address order of a copy's edge property nodes (which
// decides std::set<Edge> order inside parmcb) is dictated per rank: layout=sym makes it a symbolic choice.
#include "common.hpp"

#include <parmcb/mpi/parmcb.hpp>

using namespace hx;

typedef std::_List_node<Graph::EdgeContainer::value_type> EdgeNode;

// make the next m allocations of sizeof(EdgeNode) come back in address rank order perm[0], perm[1], ...
static std::vector<void *> g_keep;
static void prime_allocator(int m, const std::vector<int> &perm) {
    std::vector<char *> blocks;
    // a few extra blocks first so that the bin is not served from a partially used run
    for (int i = 0; i < m; i++) blocks.push_back((char *) ::operator new(sizeof(EdgeNode)));
    std::sort(blocks.begin(), blocks.end());
    for (int k = m - 1; k >= 0; k--) ::operator delete(blocks[perm[k]]); // LIFO free list: last freed is handed out first
}

struct RankData {
    Graph g;
    std::vector<Edge> eidx;
    std::list<std::list<Edge>> cycles;
    Real ret;
    std::string order_sig;
};

static std::string order_signature(const Graph &g, const std::vector<Edge> &eidx) {
    // rank of each edge's property address
    std::vector<std::pair<const void *, int>> a;
    auto wm = boost::get(boost::edge_weight, g);
    for (size_t i = 0; i < eidx.size(); i++) a.emplace_back((const void *) &wm[eidx[i]], (int) i);
    std::sort(a.begin(), a.end());
    std::vector<int> rank(eidx.size());
    for (size_t k = 0; k < a.size(); k++) rank[a[k].second] = (int) k;
    std::string s;
    for (size_t i = 0; i < rank.size(); i++) s += (i ? "," : "") + std::to_string(rank[i]);
    return s;
}

static void body(const symx::Case &c, const std::string &line) {
    symx::Engine *e = symx::E();
    Instance I = make_instance(c);
    symx::declare_inf(I.w);
    symx::resolve_model();
    std::string algo = c.at("algo");
    int P = atoi(c.at("P").c_str());
    std::string layout = c.count("layout") ? c.at("layout") : "same";
    const orc::Topo &t = I.topo;
    int m = t.m();

    // per-rank copies with dictated pointer order
    std::vector<std::vector<int>> perms;
    {
        std::vector<int> id(m);
        for (int i = 0; i < m; i++) id[i] = i;
        if (m <= 4) { std::vector<int> p = id; do perms.push_back(p); while (std::next_permutation(p.begin(), p.end())); }
        else {
            perms.push_back(id);
            std::vector<int> rev(id.rbegin(), id.rend());
            perms.push_back(rev);
            std::vector<int> sh = id;
            unsigned seed = c.count("seed") ? (unsigned) atol(c.at("seed").c_str()) : 1;
            for (int i = m - 1; i > 0; i--) { seed = seed * 1103515245u + 12345u; std::swap(sh[i], sh[(seed >> 16) % (i + 1)]); }
            perms.push_back(sh);
            std::vector<int> rot = id;
            std::rotate(rot.begin(), rot.begin() + m / 2, rot.end());
            perms.push_back(rot);
        }
    }
    std::vector<RankData> R(P);
    std::string layouts;
    int not_achieved = 0;
    for (int r = 0; r < P; r++) {
        int pi = 0;
        if (layout == "sym" && r > 0 && m >= 2) pi = symx::choose((int) perms.size(), "layout_rank" + std::to_string(r));
        else if (layout == "rev" && r > 0 && m >= 2) pi = (m <= 4) ? (int) perms.size() - 1 : 1;
        if (m > 0) prime_allocator(m, perms[pi]);
        build_graph(I, R[r].g, R[r].eidx);
        R[r].order_sig = order_signature(R[r].g, R[r].eidx);
        std::string want;
        for (int i = 0; i < m; i++) want += (i ? "," : "") + std::to_string(perms[pi][i]);
        if (want != R[r].order_sig) not_achieved++;
        layouts += (r ? "|" : "") + R[r].order_sig;
    }
    e->case_json = "\"algo\":\"" + algo + "\",\"P\":" + std::to_string(P) + ",\"layout\":\"" + layout + "\",\"n\":" + std::to_string(t.n) +
                   ",\"edges\":\"" + (c.count("edges") ? c.at("edges") : "-") + "\",\"sym\":\"" + (c.count("sym") ? c.at("sym") : "all") +
                   "\",\"fixed\":\"" + (c.count("fixed") ? c.at("fixed") : "") + "\",\"layouts\":\"" + layouts + "\"";
    symx::note("layout_not_achieved", std::to_string(not_achieved));

    mpisim::hooks().reduce_order = [](int P) {
        std::vector<int> id(P);
        for (int i = 0; i < P; i++) id[i] = i;
        std::vector<std::vector<int>> orders;
        if (P <= 3) { std::vector<int> p = id; do orders.push_back(p); while (std::next_permutation(p.begin(), p.end())); }
        else {
            orders.push_back(id);
            orders.push_back(std::vector<int>(id.rbegin(), id.rend()));
            std::vector<int> inter;
            for (int i = 0; i < P; i += 2) inter.push_back(i);
            for (int i = 1; i < P; i += 2) inter.push_back(i);
            orders.push_back(inter);
        }
        static int budget = 2; // symbolic fold orders for the first reduces of a path, ascending afterwards
        if (budget <= 0) return id;
        budget--;
        return orders[(std::size_t) symx::choose((int) orders.size(), "reduce_order")];
    };

    bool ok = mpisim::run(P, [&](int r) {
        boost::mpi::communicator world;
        WeightMap wm = boost::get(boost::edge_weight, R[r].g);
        auto out = std::back_inserter(R[r].cycles);
        if (algo == "signed_mpi") R[r].ret = parmcb::mcb_sva_signed_mpi(R[r].g, wm, out, world);
        else if (algo == "fvs_mpi") R[r].ret = parmcb::mcb_sva_fvs_trees_mpi(R[r].g, wm, out, world);
        else if (algo == "fvs_tbb_mpi") R[r].ret = parmcb::mcb_sva_fvs_trees_tbb_mpi(R[r].g, wm, out, world);
        else if (algo == "iso_mpi") R[r].ret = parmcb::mcb_sva_iso_trees_mpi(R[r].g, wm, out, world);
        else if (algo == "iso_tbb_mpi") R[r].ret = parmcb::mcb_sva_iso_trees_tbb_mpi(R[r].g, wm, out, world);
        else symx::fault("unknown algo " + algo);
    }, 4u << 20);
    mpisim::World *w = mpisim::W();
    symx::require(ok && !w->deadlock, "C04:every-rank-returns(no deadlock, matching collectives)", w->diag);
    bool noerr = true;
    std::string errs;
    for (int r = 0; r < P; r++) if (!w->error[r].empty()) { noerr = false; errs += "rank" + std::to_string(r) + ": " + w->error[r] + ";"; }
    symx::require(noerr, "C04:no-exception-on-any-rank", errs);
    symx::note("collectives", std::to_string(w->collectives_done));
    if (!ok || !noerr) return;
    bool others_empty = true;
    for (int r = 1; r < P; r++) if (!R[r].cycles.empty()) others_empty = false;
    symx::require(others_empty, "C04:ranks!=0-emit-nothing");
    std::vector<std::vector<int>> cyc;
    std::string why;
    bool mapped = to_indices(R[0].cycles, R[0].eidx, cyc, why);
    symx::require(mapped, "C04:rank0-edges-belong-to-its-graph", why);
    if (!mapped) return;
    symx::note("cycles", cycles_json(cyc));
    symx::note("N", std::to_string(cyc.size()));
    symx::note("ret", "\"" + symx::qstr(R[0].ret.value()) + "\"");
    bool valid = check_basis_validity(t, cyc, "C04:rank0:");
    symx::prove(R[0].ret.expr() == lin_of_cycles(cyc, I.w).expr(), "C04:rank0:ret==weight-of-emitted-cycles");
    if (valid) prove_minimal(cyc, I.w, t.m(), "C04:rank0:");
}

int main(int argc, char **argv) {
    symx::Options o = symx::parse_args(argc, argv);
    return symx::run_cases(o, body);
}
