// C09: the sequential exact algorithms on inexact floating-point weights, under the abstract rounding model symx::Rnd.
//   algo=signed|fvs|iso n= edges= sym=... fixedd=<decimal doubles for the non-symbolic edges>
#include "../symx/rnd.hpp"
#define HX_WEIGHT_TYPE symx::Rnd
#include "common.hpp"

#include <parmcb/parmcb_sva_signed.hpp>
#include <parmcb/parmcb_sva_trees.hpp>

using namespace hx;

static void body(const symx::Case &c, const std::string &line) {
    symx::Engine *e = symx::E();
    z3::context &ctx = e->ctx;
    Instance I = make_instance(c);
    symx::declare_inf(I.w);
    symx::resolve_model();
    std::string algo = c.at("algo");
    e->case_json = "\"algo\":\"" + algo + "\",\"n\":" + std::to_string(I.topo.n) + ",\"edges\":\"" +
                   (c.count("edges") ? c.at("edges") : "-") + "\",\"sym\":\"" + (c.count("sym") ? c.at("sym") : "all") +
                   "\",\"fixedd\":\"" + (c.count("fixedd") ? c.at("fixedd") : "") + "\"";
    Graph g;
    std::vector<Edge> eidx;
    build_graph(I, g, eidx);
    const orc::Topo &t = I.topo;
    WeightMap wm = boost::get(boost::edge_weight, g);
    std::list<std::list<Edge>> cycles;
    Real ret;
    bool threw = false;
    std::string what;
    try {
        if (algo == "signed") ret = parmcb::mcb_sva_signed(g, wm, std::back_inserter(cycles));
        else if (algo == "fvs") ret = parmcb::mcb_sva_fvs_trees(g, wm, std::back_inserter(cycles));
        else if (algo == "iso") ret = parmcb::mcb_sva_iso_trees(g, wm, std::back_inserter(cycles));
        else symx::fault("unknown algo " + algo);
    } catch (std::exception &ex) {
        threw = true;
        what = ex.what();
    }
    symx::require(!threw, "C09:no-exception", what);
    if (threw) return;
    std::vector<std::vector<int>> cyc;
    std::string why;
    bool mapped = to_indices(cycles, eidx, cyc, why);
    symx::require(mapped, "C09:edges-belong-to-input-graph", why);
    if (!mapped) return;
    symx::note("cycles", cycles_json(cyc));
    symx::note("N", std::to_string(cyc.size()));
    symx::note("eps", std::to_string(symx::RndStats::eps_count()));
    bool valid = check_basis_validity(t, cyc, "C09:");
    z3::expr S = lin_of_cycles(cyc, I.w).expr();
    z3::expr tol = ctx.real_val("1/1000000000");
    symx::prove(ret.expr() - S <= tol * S && S - ret.expr() <= tol * S, "C09:ret-within-1e-9-of-the-exact-sum-of-its-cycles");
    if (valid && cyc.size() <= 4) {
        // no basis B' with (1+1e-9) * w(B') < w(B) in exact arithmetic
        z3::context &cx = ctx;
        int N = (int) cyc.size();
        static int seq = 0;
        seq++;
        std::vector<std::vector<z3::expr>> M(N), Mi(N);
        for (int r = 0; r < N; r++) for (int k = 0; k < N; k++) {
            M[r].push_back(cx.bool_const(("M" + std::to_string(seq) + "_" + std::to_string(r) + "_" + std::to_string(k)).c_str()));
            Mi[r].push_back(cx.bool_const(("Mi" + std::to_string(seq) + "_" + std::to_string(r) + "_" + std::to_string(k)).c_str()));
        }
        z3::expr cons = cx.bool_val(true);
        for (int r = 0; r < N; r++) for (int k = 0; k < N; k++) {
            z3::expr x = cx.bool_val(false);
            for (int j = 0; j < N; j++) x = (x != (M[r][j] && Mi[j][k]));
            cons = cons && (x == cx.bool_val(r == k));
        }
        z3::expr total = cx.real_val(0);
        for (int r = 0; r < N; r++) total = total + combo_weight(M[r], cyc, I.w, t.m());
        z3::expr bad = cons && ((cx.real_val(1) + tol) * total < S);
        if (N > 0) symx::prove(!bad, "C09:emitted-weight-within-1e-9-of-the-true-minimum");
    }
}

int main(int argc, char **argv) {
    symx::Options o = symx::parse_args(argc, argv);
    return symx::run_cases(o, body);
}
