/* C18 (int instantiation): fp<int>::ext_gcd and primes<int>::is_prime lowered from clang IR. */
#include <stdint.h>
#include <assert.h>
void __CPROVER_assume(_Bool);
int nondet_int(void);
extern int g_exc, g_assert_failed;
int32_t f_w_ext_gcd(int32_t a, int32_t b, char *x, char *y);
int32_t f_w_is_prime(int32_t p);
#ifndef BOUND
#define BOUND 256
#endif
void harness_gcd(void) {
    int a = nondet_int(), b = nondet_int();
    __CPROVER_assume(a > -BOUND && a < BOUND && b > -BOUND && b < BOUND && !(a == 0 && b == 0));
    int32_t x = 0, y = 0;
    int32_t g = f_w_ext_gcd(a, b, (char *) &x, (char *) &y);
    assert(!g_exc && !g_assert_failed);
    assert(g > 0);
    assert(a % g == 0 && b % g == 0);
    assert((int64_t) a * x + (int64_t) b * y == (int64_t) g);
#ifdef WITNESS
    assert(0);
#endif
}
void harness_prime(void) {
    int p = nondet_int();
    __CPROVER_assume(p >= 2 && p < BOUND);
    int32_t r = f_w_is_prime(p);
    assert(!g_exc && !g_assert_failed);
    int composite = 0;
    for (int d = 2; d < BOUND; d++) if (d < p && p % d == 0) composite = 1;
    assert((r != 0) == !composite);
#ifdef WITNESS
    assert(0);
#endif
}
