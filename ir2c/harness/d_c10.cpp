// differential driver for the reader unit: the generated C (with the fgets/sscanf models over a byte array) and the real
// read_dimacs_from_file (real libc, fmemopen) must record the same graph for the same bytes.
#include <cstdint>
#include <cstdio>
#include <cstdlib>
#include <cstring>
#include <string>
struct RecGraphC { uint64_t nv, ne; uint64_t src[4], dst[4]; double w[4]; int32_t overflow; };
extern "C" int w_read_dimacs(FILE *fp, RecGraphC *g);
extern "C" int32_t f_w_read_dimacs(char *fp, char *g);
extern "C" char file_data[];
extern "C" int file_len, file_pos;
extern "C" int g_exc, g_assert_failed;
int main(int argc, char **argv) {
    unsigned seed = argc > 1 ? (unsigned) atoi(argv[1]) : 1;
    srand(seed);
    int mism = 0, n = 0;
    for (int it = 0; it < 400; it++) {
        std::string f;
        if (rand() % 3 == 0) f += "c hello\n";
        int N = 1 + rand() % 3;
        f += "p edge " + std::to_string(N) + " " + std::to_string(rand() % 3) + "\n";
        int E = 1 + rand() % 2;
        for (int i = 0; i < E; i++) {
            if (rand() % 5 == 0) f += "# x\n";
            f += (rand() % 2) ? "e " : "a ";
            f += std::to_string(1 + rand() % 3) + " " + std::to_string(1 + rand() % 3);   // declared or (sometimes) undeclared vertices
            int wk = rand() % 4;
            if (wk == 1) f += " " + std::to_string(rand() % 10);
            if (wk == 2) f += " " + std::to_string(10 + rand() % 90);
            if (wk == 3) f += " " + std::to_string(rand() % 10) + "." + std::to_string(rand() % 10);
            f += "\n";   // complete lines only: the treatment of a missing final newline is the subject of the check itself
        }
        if (f.size() > 60) continue;
        RecGraphC a, b;
        memset(&a, 0, sizeof a);
        memset(&b, 0, sizeof b);
        FILE *fp = fmemopen((void *) f.data(), f.size(), "r");
        int ta = w_read_dimacs(fp, &a);
        fclose(fp);
        memcpy(file_data, f.data(), f.size());
        file_len = (int) f.size();
        file_pos = 0;
        g_exc = 0;
        int tb = f_w_read_dimacs((char *) 1, (char *) &b);
        bool same = ta == tb && a.nv == b.nv && a.ne == b.ne;
        for (uint64_t i = 0; same && i < a.ne && i < 4; i++) same = a.src[i] == b.src[i] && a.dst[i] == b.dst[i] && a.w[i] == b.w[i];
        if (!same) { mism++; if (mism < 4) fprintf(stderr, "MISMATCH on <<%s>> real threw=%d nv=%lu ne=%lu  gen threw=%d nv=%lu ne=%lu\n", f.c_str(), ta, a.nv, a.ne, tb, b.nv, b.ne); }
        n++;
    }
    if (g_assert_failed) mism++;
    printf("{\"compared\":%d,\"mismatches\":%d}\n", n, mism);
    return mism ? 1 : 0;
}
