// differential driver for the fp<int> unit: generated C vs the real template instantiation
#include <cstdint>
#include <cstdio>
#include <cstdlib>
extern "C" int w_ext_gcd(int a, int b, int *x, int *y);
extern "C" int w_is_prime(int p);
extern "C" int32_t f_w_ext_gcd(int32_t a, int32_t b, char *x, char *y);
extern "C" int32_t f_w_is_prime(int32_t p);
extern "C" int g_exc, g_assert_failed;
int main(int argc, char **argv) {
    unsigned seed = argc > 1 ? (unsigned) atoi(argv[1]) : 1;
    srand(seed);
    int mism = 0, n = 0;
    // the repository's own test inputs (test/test_fp.cpp) first
    int fixed[][2] = {{3, 7}, {5, 7}, {2, 5}, {10, 17}, {1, 2}, {6, 35}, {-3, 7}, {0, 5}, {5, 0}, {-17, 0}, {12, 18}, {-12, -18}};
    for (auto &f : fixed) {
        int x1 = 0, y1 = 0, x2 = 0, y2 = 0;
        int g1 = w_ext_gcd(f[0], f[1], &x1, &y1), g2 = f_w_ext_gcd(f[0], f[1], (char *) &x2, (char *) &y2);
        if (g1 != g2 || (f[0] && x1 != x2) || (f[1] && y1 != y2)) mism++;
        n++;
    }
    for (int i = 0; i < 1000; i++) {
        int a = rand() % 20001 - 10000, b = rand() % 20001 - 10000;
        if (!a && !b) continue;
        int x1 = 0, y1 = 0, x2 = 0, y2 = 0;
        int g1 = w_ext_gcd(a, b, &x1, &y1), g2 = f_w_ext_gcd(a, b, (char *) &x2, (char *) &y2);
        if (g1 != g2 || x1 != x2 || y1 != y2) mism++;
        n++;
    }
    for (int p = 2; p < 3000; p++) { if (w_is_prime(p) != f_w_is_prime(p)) mism++; n++; }
    if (g_exc || g_assert_failed) mism++;
    printf("{\"compared\":%d,\"mismatches\":%d}\n", n, mism);
    return mism ? 1 : 0;
}
