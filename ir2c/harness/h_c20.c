/* C20: after set_global_tbb_concurrency(n) returns, TBB's allowed parallelism is n until it is set again. */
#include <stdint.h>
#include <assert.h>
void __CPROVER_assume(_Bool);
uint64_t nondet_u64(void);
extern uint64_t tbb_default_parallelism;
extern int g_exc, g_assert_failed;
uint64_t tbb_active_value(int32_t par);
void f_w_set_concurrency(int64_t n);
#ifndef CALLS
#define CALLS 3
#endif
void harness(void) {
    uint64_t d = nondet_u64();
    __CPROVER_assume(d >= 1);
    tbb_default_parallelism = d;
    for (int i = 0; i < CALLS; i++) {
        uint64_t n = nondet_u64();
        __CPROVER_assume(n >= 1);
        f_w_set_concurrency((int64_t) n);
        assert(!g_exc && !g_assert_failed);
        assert(tbb_active_value(0) == n);   /* the property */
    }
#ifdef WITNESS
    assert(0);
#endif
}
