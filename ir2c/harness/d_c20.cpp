// differential driver for C20: the generated C (with the global_control model) and the real function (real libtbb)
// must report the same allowed parallelism after the same sequence of calls
#include <cstdint>
#include <cstdio>
#include <cstdlib>
#include <tbb/global_control.h>
extern "C" void w_set_concurrency(unsigned long n);
extern "C" void f_w_set_concurrency(int64_t n);
extern "C" uint64_t tbb_active_value(int32_t par);
extern "C" uint64_t tbb_default_parallelism;
int main(int argc, char **argv) {
    unsigned seed = argc > 1 ? (unsigned) atoi(argv[1]) : 1;
    srand(seed);
    tbb_default_parallelism = tbb::global_control::active_value(tbb::global_control::max_allowed_parallelism);
    int mism = 0, n = 0;
    for (int i = 0; i < 1000; i++) {
        unsigned long v = 1 + rand() % 64;
        w_set_concurrency(v);
        f_w_set_concurrency((int64_t) v);
        uint64_t real = tbb::global_control::active_value(tbb::global_control::max_allowed_parallelism);
        uint64_t model = tbb_active_value(0);
        if (real != model) mism++;
        n++;
    }
    printf("{\"compared\":%d,\"mismatches\":%d}\n", n, mism);
    return mism ? 1 : 0;
}
