/* C10 (reader): the file is a symbolic byte array produced by a bounded grammar; the graph recorded by the reader must be
   exactly the one the text describes.  EDGES = number of edge lines (1 or 2). */
#include <stdint.h>
#include <assert.h>
void __CPROVER_assume(_Bool);
int nondet_int(void);
char nondet_char(void);
extern char file_data[];
extern int file_len, file_pos;
extern int g_exc, g_assert_failed;
struct RecGraph { uint64_t nv, ne; uint64_t src[4], dst[4]; double w[4]; int32_t overflow; };
int32_t f_w_read_dimacs(char *fp, char *g);
#ifndef EDGES
#define EDGES 1
#endif
#ifndef COMMENTS
#define COMMENTS 1   /* 0: no comment lines */
#endif
#ifndef WKINDS
#define WKINDS 3     /* weight forms: 0 absent, 1 one digit, 2 two digits, 3 D.D */
#endif
#ifndef NMAX
#define NMAX 3
#endif
static void put(char c) { file_data[file_len++] = c; }
static char digit(int lo, int hi) { int d = nondet_int(); __CPROVER_assume(d >= lo && d <= hi); return (char) ('0' + d); }

void harness(void) {
    struct RecGraph g;
    g.nv = 0; g.ne = 0; g.overflow = 0;
    file_len = 0; file_pos = 0;
    /* optional comment line */
    int comment = COMMENTS ? nondet_int() : 0;
    if (comment == 1) { put('c'); put(' '); put('x'); put('\n'); }
    else if (comment == 2) { put('#'); put('\n'); }
    /* problem line: p edge N M */
#ifdef FIXED_N
    char N = (char) ('0' + FIXED_N);
#else
    char N = digit(1, NMAX);
#endif
    put('p'); put(' '); put('e'); put('d'); put('g'); put('e'); put(' '); put(N); put(' ');
#ifdef FIXED_N
    put('1');
#else
    put(digit(0, 2));
#endif
    put('\n');
    int U[EDGES], V[EDGES], wkind[EDGES], w1[EDGES], w2[EDGES];
    for (int i = 0; i < EDGES; i++) {
        int mid_comment = COMMENTS ? nondet_int() : 0;
        if (mid_comment == 1 && i > 0) { put('c'); put('\n'); }
        char kind = nondet_char();
        __CPROVER_assume(kind == 'e' || kind == 'a');
        char u = digit(0, 4), v = digit(0, 4);
        U[i] = u - '0'; V[i] = v - '0';
        put(kind); put(' '); put(u); put(' '); put(v);
        wkind[i] = nondet_int();
        __CPROVER_assume(wkind[i] >= 0 && wkind[i] <= WKINDS);
        w1[i] = 0; w2[i] = 0;
        if (wkind[i] >= 1) { char a = digit(0, 9); w1[i] = a - '0'; put(' '); put(a); }
        if (wkind[i] == 2) { char b = digit(0, 9); w2[i] = b - '0'; put(b); }                 /* two digits */
        if (wkind[i] == 3) { char b = digit(0, 9); w2[i] = b - '0'; put('.'); put(b); }       /* D.D */
        int last = (i == EDGES - 1);
        int newline = last ? nondet_int() : 1;
        if (newline) put('\n');
    }
    int32_t threw = f_w_read_dimacs((char *) 0 + 1, (char *) &g);
    assert(!g_assert_failed);
    int n = N - '0';
    /* first edge line naming an undeclared vertex */
    int bad = -1;
    for (int i = 0; i < EDGES; i++) if (bad < 0 && (U[i] < 1 || U[i] > n || V[i] < 1 || V[i] > n)) bad = i;
    assert((threw != 0) == (bad >= 0));                 /* undeclared vertex <=> error */
    assert(g.overflow == 0);
    assert(g.nv == (uint64_t) n);                       /* as many vertices as declared */
    int expect_edges = bad >= 0 ? bad : EDGES;
    assert(g.ne == (uint64_t) expect_edges);            /* one edge per edge line (up to the error) */
    for (int i = 0; i < EDGES; i++) {
        if (i < expect_edges) {
            assert(g.src[i] == (uint64_t) (U[i] - 1) && g.dst[i] == (uint64_t) (V[i] - 1));
            double w = 1.0;
            if (wkind[i] == 1) w = (double) w1[i];
            if (wkind[i] == 2) w = (double) (w1[i] * 10 + w2[i]);
            if (wkind[i] == 3) w = (double) (w1[i] * 10 + w2[i]) / 10.0;
            assert(g.w[i] == w);                        /* weight as written, 1 when omitted */
        }
    }
#ifdef WITNESS
    assert(0);
#endif
}
