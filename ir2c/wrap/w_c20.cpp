#include <parmcb/util.hpp>
extern "C" __attribute__((noinline)) void w_set_concurrency(unsigned long n) { parmcb::set_global_tbb_concurrency(n); }
