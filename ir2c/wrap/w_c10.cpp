// C10 (reader): read_dimacs_from_file instantiated with a fixed-capacity recording graph, lowered from clang IR.
#include <cstdio>
#include <cstring>
#include <cerrno>
#include <system_error>
#include <cstddef>

#define REC_MAXV 8
#define REC_MAXE 4
struct RecGraph {
    std::size_t nv;
    std::size_t ne;
    std::size_t src[REC_MAXE], dst[REC_MAXE];
    double w[REC_MAXE];
    int overflow;
};
struct RecWeightMap {
    RecGraph *g;
    double &operator[](std::size_t e) const { return g->w[e < REC_MAXE ? e : REC_MAXE - 1]; }
};
#include <boost/graph/graph_traits.hpp>
#include <boost/graph/properties.hpp>
namespace boost {
template<> struct graph_traits<RecGraph> {
    typedef std::size_t vertex_descriptor;
    typedef std::size_t edge_descriptor;
    typedef undirected_tag directed_category;
    typedef allow_parallel_edge_tag edge_parallel_category;
    typedef void traversal_category;
    typedef std::size_t vertices_size_type, edges_size_type, degree_size_type;
};
template<> struct property_map<RecGraph, edge_weight_t> { typedef RecWeightMap type; typedef RecWeightMap const_type; };
inline RecWeightMap get(edge_weight_t, RecGraph &g) { RecWeightMap m; m.g = &g; return m; }
inline std::size_t add_vertex(RecGraph &g) { if (g.nv >= REC_MAXV) { g.overflow = 1; return REC_MAXV - 1; } return g.nv++; }
inline std::size_t vertex(std::size_t i, const RecGraph &) { return i; }
inline std::pair<std::size_t, bool> add_edge(std::size_t s, std::size_t t, RecGraph &g) {
    if (g.ne >= REC_MAXE) { g.overflow = 1; return std::make_pair((std::size_t) (REC_MAXE - 1), false); }
    g.src[g.ne] = s; g.dst[g.ne] = t; g.w[g.ne] = 0;
    return std::make_pair(g.ne++, true);
}
}
// Everything util.hpp includes is included first, so that the macro below only rewrites util.hpp's own text:
// the construction of the std::system_error object (message formatting through the error category's vtable) is
// stubbed by an empty exception type; the throw itself stays.  (A stub, listed in the evidence.)
#include <vector>
#include <set>
#include <map>
#include <memory>
#include <boost/graph/graph_concepts.hpp>
#include <boost/graph/graph_utility.hpp>
#include <boost/graph/adjacency_list.hpp>
#include <boost/property_map/property_map.hpp>
#include <parmcb/config.hpp>
#include <parmcb/forestindex.hpp>
#include <tbb/tbb.h>
namespace std { struct rec_system_error { rec_system_error(int, const error_category &, const char *) {} }; }
// std::map<size_t, vertex> (red-black tree on the heap) is likewise replaced by a fixed-capacity array map with the same
// interface (operator[], find, end) — a stub of the standard container, listed in the evidence.
extern "C" int rec_map_overflow;
int rec_map_overflow = 0;
namespace std {
template<class K, class V> struct rec_map {
    struct value_type { K first; V second; };
    typedef value_type *iterator;
    value_type items[REC_MAXV + 1];
    size_t n;
    rec_map() : n(0) {}
    iterator end() { return items + n; }
    iterator find(const K &k) { for (size_t i = 0; i < n; i++) if (items[i].first == k) return items + i; return end(); }
    V &operator[](const K &k) {
        iterator it = find(k);
        if (it != end()) return it->second;
        if (n >= REC_MAXV) { rec_map_overflow = 1; return items[REC_MAXV].second; }
        items[n].first = k;
        items[n].second = V();
        return items[n++].second;
    }
};
}
#define system_error rec_system_error
#define map rec_map
#include <parmcb/util.hpp>
#undef map
#undef system_error

extern "C" __attribute__((noinline)) int w_read_dimacs(FILE *fp, RecGraph *g) {
    try {
        parmcb::read_dimacs_from_file(fp, *g);
    } catch (std::rec_system_error &) {
        return 1;
    }
    return 0;
}
