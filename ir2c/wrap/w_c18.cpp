#include <cassert>
#include <cmath>
#include <cstddef>
#include <stdexcept>
#include <parmcb/config.hpp>
#include <parmcb/fp.hpp>
extern "C" __attribute__((noinline)) int w_ext_gcd(int a, int b, int *x, int *y) { return parmcb::fp<int>::ext_gcd(a, b, *x, *y); }
extern "C" __attribute__((noinline)) int w_is_prime(int p) { return parmcb::primes<int>::is_prime(p) ? 1 : 0; }
