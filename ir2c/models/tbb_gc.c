/* Life-cycle model of oneTBB's global_control (documented contract): create() adds the limit to the multiset of live
   controls, destroy() removes it, active_value(param) = min over live controls of that parameter, else the default. */
#include <stdint.h>
void __CPROVER_assume(_Bool);
#define MAXLIVE 4
static char *live_obj[MAXLIVE];
static uint64_t live_val[MAXLIVE];
static int32_t live_par[MAXLIVE];
uint64_t tbb_default_parallelism;
extern int g_assert_failed;
void f__ZN3tbb6detail2r16createERNS0_2d114global_controlE(char *gc) {
    for (int i = 0; i < MAXLIVE; i++) if (!live_obj[i]) { live_obj[i] = gc; live_val[i] = *(uint64_t *) gc; live_par[i] = *(int32_t *) (gc + 16); return; }
    __CPROVER_assume(0); /* more live controls than the model holds: outside the bound */
}
void f__ZN3tbb6detail2r17destroyERNS0_2d114global_controlE(char *gc) {
    for (int i = 0; i < MAXLIVE; i++) if (live_obj[i] == gc) { live_obj[i] = 0; return; }
    g_assert_failed = 1; /* destroying a control that is not live */
}
void f__ZN3tbb6detail2r117assertion_failureEPKciS3_S3_(char *a, int32_t l, char *b, char *c) { (void) a; (void) l; (void) b; (void) c; g_assert_failed = 1; }
uint64_t tbb_active_value(int32_t par) {
    uint64_t best = 0; int any = 0;
    for (int i = 0; i < MAXLIVE; i++) if (live_obj[i] && live_par[i] == par && (!any || live_val[i] < best)) { best = live_val[i]; any = 1; }
    return any ? best : tbb_default_parallelism;
}
/* tbb::detail::r1::global_control_active_value(int): the value TBB reports for a parameter */
uint64_t f__ZN3tbb6detail2r127global_control_active_valueEi(int32_t par) { return tbb_active_value(par); }
