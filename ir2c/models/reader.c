/* C models for the DIMACS reader unit (trusted base of engine B for C10):
   FILE = symbolic byte array; fgets, strlen, sscanf for exactly the two formats used in parmcb/util.hpp;
   red-black tree primitives of libstdc++ as a plain (unbalanced) binary search tree link/walk. */
#include <stdint.h>
#include <stddef.h>
#include <stdarg.h>
void __CPROVER_assume(_Bool);
extern int g_assert_failed;

#define FILE_MAX 64
char file_data[FILE_MAX];
int file_len = 0, file_pos = 0;

char *f_fgets(char *buf, int32_t n, char *fp) {
    (void) fp;
    if (file_pos >= file_len || n <= 1) return 0;
    int k = 0;
    while (k < n - 1 && file_pos < file_len) {
        char ch = file_data[file_pos++];
        buf[k++] = ch;
        if (ch == '\n') break;
    }
    buf[k] = 0;
    return buf;
}

int64_t f_strlen(char *s) { int64_t n = 0; while (s[n]) n++; return n; }

static int is_space(char c) { return c == ' ' || c == '\t' || c == '\n' || c == '\r' || c == '\f' || c == '\v'; }
static int is_digit(char c) { return c >= '0' && c <= '9'; }

static int scan_ulong(char **pp, uint64_t *out) {
    char *p = *pp;
    while (is_space(*p)) p++;
    if (*p == '+') p++;
    if (!is_digit(*p)) return 0;
    uint64_t v = 0;
    while (is_digit(*p)) { v = v * 10 + (uint64_t) (*p - '0'); p++; }
    *out = v;
    *pp = p;
    return 1;
}
static int scan_int(char **pp, int32_t *out) {
    char *p = *pp;
    while (is_space(*p)) p++;
    int neg = 0;
    if (*p == '-') { neg = 1; p++; } else if (*p == '+') p++;
    if (!is_digit(*p)) return 0;
    int64_t v = 0;
    while (is_digit(*p)) { v = v * 10 + (*p - '0'); p++; __CPROVER_assume(v < 1000000); }
    *out = (int32_t) (neg ? -v : v);
    *pp = p;
    return 1;
}
static int scan_double(char **pp, double *out) {
    char *p = *pp;
    while (is_space(*p)) p++;
    int neg = 0;
    if (*p == '-') { neg = 1; p++; } else if (*p == '+') p++;
    if (!is_digit(*p) && !(*p == '.' && is_digit(p[1]))) return 0;
    int64_t mant = 0, scale = 1;
    while (is_digit(*p)) { mant = mant * 10 + (*p - '0'); p++; __CPROVER_assume(mant < 1000000); }
    if (*p == '.') {
        p++;
        while (is_digit(*p)) { mant = mant * 10 + (*p - '0'); scale *= 10; p++; __CPROVER_assume(mant < 1000000); }
    }
    __CPROVER_assume(*p != 'e' && *p != 'E');   /* exponents are outside the modelled grammar */
    double v = (double) mant / (double) scale;   /* correctly rounded: equals strtod of the same decimal */
    *out = neg ? -v : v;
    *pp = p;
    return 1;
}

int32_t f___isoc99_sscanf(char *buf, char *fmt, ...) {
    va_list ap;
    va_start(ap, fmt);
    int32_t n = 0;
    char *p = buf;
    if (fmt[0] == 'p') {
        /* "p %s %lu %lu" */
        char *problem = va_arg(ap, char *);
        char *nn = va_arg(ap, char *), *ne = va_arg(ap, char *);
        if (*p != 'p') { va_end(ap); return (*p == 0) ? -1 : 0; }
        p++;
        while (is_space(*p)) p++;
        if (*p == 0) { va_end(ap); return -1; }
        int k = 0;
        while (*p && !is_space(*p)) problem[k++] = *p++;
        problem[k] = 0;
        n = 1;
        uint64_t v;
        if (scan_ulong(&p, &v)) { *(uint64_t *) nn = v; n = 2; if (scan_ulong(&p, &v)) { *(uint64_t *) ne = v; n = 3; } }
    } else {
        /* "%c %d %d %lf" */
        char *fc = va_arg(ap, char *);
        char *rs = va_arg(ap, char *), *rt = va_arg(ap, char *), *rw = va_arg(ap, char *);
        if (*p == 0) { va_end(ap); return -1; }
        *fc = *p++;
        n = 1;
        int32_t iv;
        double dv;
        if (scan_int(&p, &iv)) {
            *(int32_t *) rs = iv; n = 2;
            if (scan_int(&p, &iv)) {
                *(int32_t *) rt = iv; n = 3;
                if (scan_double(&p, &dv)) { *(double *) rw = dv; n = 4; }
            }
        }
    }
    va_end(ap);
    return n;
}

/* _Rb_tree_node_base: { int color; node *parent; node *left; node *right; } */
#define PARENT(x) (*(char **) ((x) + 8))
#define LEFT(x) (*(char **) ((x) + 16))
#define RIGHT(x) (*(char **) ((x) + 24))
void f__ZSt29_Rb_tree_insert_and_rebalancebPSt18_Rb_tree_node_baseS0_RS_(uint8_t insert_left, char *x, char *p, char *header) {
    PARENT(x) = p;
    LEFT(x) = 0;
    RIGHT(x) = 0;
    *(int32_t *) x = 0;
    if (insert_left) {
        LEFT(p) = x;
        if (p == header) { PARENT(header) = x; RIGHT(header) = x; }
        else if (p == LEFT(header)) LEFT(header) = x;
    } else {
        RIGHT(p) = x;
        if (p == RIGHT(header)) RIGHT(header) = x;
    }
    /* rebalancing omitted: observationally irrelevant for std::map lookups and ordered walks */
}
char *f__ZSt18_Rb_tree_incrementPSt18_Rb_tree_node_base(char *x) {
    if (RIGHT(x) != 0) {
        x = RIGHT(x);
        while (LEFT(x) != 0) x = LEFT(x);
    } else {
        char *y = PARENT(x);
        while (x == RIGHT(y)) { x = y; y = PARENT(y); }
        if (RIGHT(x) != y) x = y;
    }
    return x;
}
char *f__ZSt18_Rb_tree_decrementPSt18_Rb_tree_node_base(char *x) {
    if (*(int32_t *) x == 0 && PARENT(x) != 0 && PARENT(PARENT(x)) == x && 0) return RIGHT(x); /* header case handled below */
    if (LEFT(x) != 0) {
        char *y = LEFT(x);
        while (RIGHT(y) != 0) y = RIGHT(y);
        return y;
    } else {
        char *y = PARENT(x);
        while (x == LEFT(y)) { x = y; y = PARENT(y); }
        return y;
    }
}
