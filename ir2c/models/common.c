/* C models shared by the generated units (trusted base of engine B). */
#include <stdint.h>
#include <stddef.h>
#include <stdlib.h>
#include <math.h>
int g_exc = 0;              /* pending C++ exception */
int g_assert_failed = 0;    /* a library assert()/terminate was reached */
#ifndef __CPROVER__
/* ordinary compilation (differential testing): an assumption that fails ends the run, a failed assert is recorded */
void __CPROVER_assume(_Bool c) { if (!c) exit(0); }
#define __CPROVER_assert(x, m) do { if (!(x)) g_assert_failed = 1; } while (0)
#else
void __CPROVER_assume(_Bool);
#endif
void ir2c_memcpy(char *d, char *s, int64_t n) { for (int64_t i = 0; i < n; i++) d[i] = s[i]; }
void ir2c_memset(char *d, int8_t v, int64_t n) { for (int64_t i = 0; i < n; i++) d[i] = v; }
double ir2c_hexdouble(uint64_t bits) { union { uint64_t u; double d; } x; x.u = bits; return x.d; }
char *f__Znwm(int64_t n) { char *p = malloc((size_t) n); __CPROVER_assume(p != 0); return p; }
void f__ZdlPv(char *p) { free(p); }
void f__ZdlPvm(char *p, int64_t n) { (void) n; free(p); }
char *f___cxa_allocate_exception(int64_t n) { char *p = malloc((size_t) n); __CPROVER_assume(p != 0); return p; }
void f___cxa_free_exception(char *p) { free(p); }
void f___cxa_throw(char *a, char *b, char *c) { (void) a; (void) b; (void) c; g_exc = 1; }
char *f___cxa_begin_catch(char *p) { g_exc = 0; return p; }
void f___cxa_end_catch(void) {}
void f__ZNSt13runtime_errorC1EPKc(char *self, char *msg) { (void) self; (void) msg; }
void f__ZSt9terminatev(void) { g_assert_failed = 1; __CPROVER_assert(0, "std::terminate reached"); }
void f___assert_fail(char *a, char *b, int32_t l, char *d) { (void) a; (void) b; (void) l; (void) d; g_assert_failed = 1; __CPROVER_assert(0, "library assert failed"); __CPROVER_assume(0); }
int32_t f___cxa_guard_acquire(char *g) { if (*g) return 0; return 1; }
void f___cxa_guard_release(char *g) { *g = 1; }
void f___cxa_guard_abort(char *g) { (void) g; }
int32_t f___cxa_atexit(char *f, char *a, char *d) { (void) f; (void) a; (void) d; return 0; }
double f_sqrt(double x) { return sqrt(x); }
