#!/usr/bin/env python3
"""LLVM-14 textual IR (clang -O1) -> C for CBMC.  Scope: integer/pointer code of C-style leaf units.

Memory model of the generated C: every pointer is `char *`; struct/array layouts are computed here from the LLVM
types (natural alignment, x86-64), GEPs become byte offsets, loads/stores go through casts.  Integers live in
`uintN_t`-agnostic signed C types; arithmetic without `nsw` is done in unsigned (wrapping), arithmetic with `nsw`
in signed C arithmetic so that CBMC's --signed-overflow-check sees exactly the overflows that are UB in the source.
Exceptions: one pending-exception flag `g_exc`; __cxa_throw sets it; every call is followed by a
propagate-or-branch test (invoke -> unwind label, call -> return).
"""
import re
import sys


class Err(Exception):
    pass


def split_top(s, sep=','):
    out, depth, cur = [], 0, ''
    inq = False
    for ch in s:
        if ch == '"':
            inq = not inq
        if not inq:
            if ch in '([{<':
                depth += 1
            elif ch in ')]}>':
                depth -= 1
            elif ch == sep and depth == 0:
                out.append(cur.strip())
                cur = ''
                continue
        cur += ch
    if cur.strip():
        out.append(cur.strip())
    return out


def split_tv(a):
    """'<type> <value>' where value may be a constant expression with parentheses"""
    a = a.strip()
    if a.endswith(')'):
        depth, k = 0, len(a) - 1
        while k >= 0:
            if a[k] == ')':
                depth += 1
            elif a[k] == '(':
                depth -= 1
                if depth == 0:
                    break
            k -= 1
        head = a[:k].rstrip()
        m = re.search(r'(getelementptr inbounds|getelementptr|bitcast|inttoptr|ptrtoint)$', head)
        if m:
            return head[:m.start()].strip(), a[m.start():]
    t, v = a.rsplit(' ', 1)
    return t.strip(), v.strip()


class Types:
    def __init__(self):
        self.named = {}
        self.aggs = {}   # literal struct type text -> (c name, [field types])

    def agg(self, t):
        t = t.strip()
        if t not in self.aggs:
            inner = t[1:-1].strip()
            fields = split_top(inner) if inner else []
            self.aggs[t] = ('struct agg_%d' % len(self.aggs), fields)
        return self.aggs[t]

    def agg_decls(self):
        out = []
        for t, (nm, fields) in self.aggs.items():
            body = ' '.join('%s f%d;' % (self.ctype(f), i) for i, f in enumerate(fields)) or 'char dummy;'
            out.append('%s { %s };' % (nm, body))
        return out

    def norm(self, t):
        return t.strip()

    def is_ptr(self, t):
        return t.strip().endswith('*') or t.strip() == 'ptr'

    def size_align(self, t):
        t = t.strip()
        if self.is_ptr(t):
            return 8, 8
        m = re.fullmatch(r'i(\d+)', t)
        if m:
            b = int(m.group(1))
            s = max(1, (b + 7) // 8)
            s2 = 1
            while s2 < s:
                s2 *= 2
            return s2, min(s2, 8)
        if t == 'double':
            return 8, 8
        if t == 'float':
            return 4, 4
        m = re.fullmatch(r'\[(\d+) x (.*)\]', t)
        if m:
            s, a = self.size_align(m.group(2))
            return s * int(m.group(1)), a
        if t.startswith('%'):
            if t not in self.named:
                raise Err('unknown named type ' + t)
            return self.size_align(self.named[t])
        if t.startswith('{') or t.startswith('<{'):
            packed = t.startswith('<{')
            inner = t[2:-2] if packed else t[1:-1]
            off, maxa = 0, 1
            for f in split_top(inner):
                s, a = self.size_align(f)
                if packed:
                    a = 1
                off = (off + a - 1) // a * a
                off += s
                maxa = max(maxa, a)
            off = (off + maxa - 1) // maxa * maxa
            return off, maxa
        if t == 'opaque':
            return 0, 1
        raise Err('size of type ' + t)

    def fields(self, t):
        t = t.strip()
        if t.startswith('%'):
            t = self.named[t]
        packed = t.startswith('<{')
        inner = t[2:-2] if packed else t[1:-1]
        res, off = [], 0
        for f in split_top(inner):
            s, a = self.size_align(f)
            if packed:
                a = 1
            off = (off + a - 1) // a * a
            res.append((f, off))
            off += s
        return res

    def ctype(self, t):
        t = t.strip()
        if self.is_ptr(t):
            return 'char *'
        m = re.fullmatch(r'i(\d+)', t)
        if m:
            b = int(m.group(1))
            if b == 1:
                return 'uint8_t'
            for w in (8, 16, 32, 64):
                if b <= w:
                    return 'int%d_t' % w
        if t == 'double':
            return 'double'
        if t == 'float':
            return 'float'
        if t == 'void':
            return 'void'
        if t.startswith('{'):
            return self.agg(t)[0]
        raise Err('ctype of ' + t)

    def bits(self, t):
        m = re.fullmatch(r'i(\d+)', t.strip())
        return int(m.group(1)) if m else None


def cname(n):
    n = n.strip()
    if n.startswith('@'):
        return 'g_' + re.sub(r'[^A-Za-z0-9_]', '_', n[1:].strip('"'))
    if n.startswith('%'):
        return 'v_' + re.sub(r'[^A-Za-z0-9_]', '_', n[1:].strip('"'))
    raise Err('cname ' + n)


def fname(n):
    return 'f_' + re.sub(r'[^A-Za-z0-9_]', '_', n[1:].strip('"'))


ATTR_WORDS = set('noundef nonnull signext zeroext nocapture readonly readnone writeonly inreg returned noalias immarg nofree '
                 'dereferenceable dereferenceable_or_null align'.split())


def strip_attrs(s):
    s = re.sub(r'dereferenceable(_or_null)?\(\d+\)', '', s)
    s = re.sub(r'align \d+', '', s)
    s = re.sub(r'\b(noundef|nonnull|signext|zeroext|nocapture|readonly|readnone|writeonly|inreg|returned|noalias|immarg|nofree|nest|swiftself)\b', '', s)
    return re.sub(r'\s+', ' ', s).strip()


class Translator:
    def __init__(self, text, keep=None):
        self.T = Types()
        # quoted names (templates with spaces/commas) are renamed to plain identifiers first
        text = re.sub(r'([%@])"([^"]+)"', lambda m: m.group(1) + 'q_' + re.sub(r'[^A-Za-z0-9_.]', '_', m.group(2)), text)
        self.text = text
        self.out = []
        self.globals = {}
        self.defined = {}
        self.declared = {}
        self.keep = keep
        self.parse()

    # ---------------------------------------------------------------- parsing
    def parse(self):
        lines = self.text.splitlines()
        i = 0
        while i < len(lines):
            ln = lines[i]
            m = re.match(r'^(%[^ ]+|%"[^"]+") = type (.*)$', ln)
            if m:
                self.T.named[m.group(1)] = m.group(2).strip()
            m = re.match(r'^(@[^ ]+|@"[^"]+") = (.*)$', ln)
            if m:
                self.globals[m.group(1)] = m.group(2)
            if ln.startswith('define '):
                body = [ln]
                i += 1
                while not lines[i].startswith('}'):
                    body.append(lines[i])
                    i += 1
                self.add_function(body)
            elif ln.startswith('declare '):
                m = re.match(r'declare .*?(@[^ (]+|@"[^"]+")\(', ln)
                if m:
                    self.declared[m.group(1)] = ln
            i += 1

    def add_function(self, body):
        head = body[0]
        m = re.match(r'define (.*?)(@[^ (]+|@"[^"]+")\(', head)
        if not m:
            raise Err('cannot parse define: ' + head)
        pre, name = m.group(1), m.group(2)
        depth, k = 1, m.end()
        while depth:
            if head[k] == '(':
                depth += 1
            elif head[k] == ')':
                depth -= 1
            k += 1
        params = head[m.end():k - 1]
        # return type = last type token of `pre`
        pre = re.sub(r'\b(dso_local|linkonce_odr|internal|hidden|weak_odr|weak|private|available_externally|local_unnamed_addr|unnamed_addr|noundef|nonnull|zeroext|signext|noalias)\b', '', pre)
        pre = re.sub(r'dereferenceable(_or_null)?\(\d+\)', '', pre)
        pre = re.sub(r'align \d+', '', pre)
        rett = pre.strip()
        ps = []
        for p in split_top(params):
            p = strip_attrs(p)
            if p == '...':
                continue
            mm = re.match(r'(.*) (%[^ ]+)$', p)
            if not mm:
                raise Err('param ' + p)
            ps.append((mm.group(1).strip(), mm.group(2)))
        self.defined[name] = (rett, ps, body[1:])

    # ---------------------------------------------------------------- values
    def const_or_val(self, ty, v):
        v = v.strip()
        if v.startswith('%'):
            return cname(v)
        if v.startswith('@'):
            if v in self.defined or v in self.declared:
                return '((char *)%s)' % fname(v)
            return '((char *)%s)' % cname(v)
        if v in ('null', 'undef', 'poison', 'zeroinitializer'):
            if ty.strip().startswith('{'):
                return '(%s){0}' % self.T.ctype(ty)
            return '0'
        if v == 'true':
            return '1'
        if v == 'false':
            return '0'
        if v.startswith('{') and ty.strip().startswith('{'):
            nm, fields = self.T.agg(ty)
            parts = split_top(v[1:-1])
            vals = []
            for p_ in parts:
                ft, fv = split_tv(p_)
                vals.append(self.const_or_val(ft, fv))
            return '(%s){ %s }' % (nm, ', '.join(vals))
        if re.fullmatch(r'-?\d+', v):
            b = self.T.bits(ty) or 64
            iv = int(v)
            if b <= 32:
                return '((%s)%d)' % (self.T.ctype(ty), iv)
            if iv == -(1 << 63):
                return '((int64_t)(-9223372036854775807LL-1))'
            return '((int64_t)%dLL)' % iv
        if re.fullmatch(r'-?\d+\.\d+e[+-]\d+', v) or re.fullmatch(r'0x[0-9A-Fa-f]+', v):
            if v.startswith('0x'):
                return '(ir2c_hexdouble(0x%sULL))' % v[2:]
            return v
        m = re.match(r'getelementptr (inbounds )?\((.*)\)$', v)
        if m:
            args = split_top(m.group(2))
            basety = args[0]
            pt, pv = split_tv(args[1])
            idx = [a.rsplit(' ', 1) for a in args[2:]]
            return self.gep_expr(basety, self.const_or_val(pt, pv), idx)
        m = re.match(r'bitcast \((.*) to (.*)\)$', v)
        if m:
            t, vv = split_tv(m.group(1))
            return self.const_or_val(t, vv)
        raise Err('value ' + v)

    def gep_expr(self, basety, base, idx):
        off = []
        cur = basety.strip()
        first = True
        for ity, iv in idx:
            ival = self.const_or_val(ity, iv)
            if first:
                s, _ = self.T.size_align(cur)
                off.append('(int64_t)%s * %d' % (ival, s))
                first = False
                continue
            t = cur
            if t.startswith('%'):
                t = self.T.named[t]
            m = re.fullmatch(r'\[(\d+) x (.*)\]', t)
            if m:
                s, _ = self.T.size_align(m.group(2))
                off.append('(int64_t)%s * %d' % (ival, s))
                cur = m.group(2)
            else:
                fs = self.T.fields(t)
                k = int(iv)
                off.append(str(fs[k][1]))
                cur = fs[k][0]
        return '(%s + (%s))' % (base, ' + '.join(off) if off else '0')

    # ---------------------------------------------------------------- functions
    def emit_function(self, name):
        rett, ps, body = self.defined[name]
        T = self.T
        cret = T.ctype(rett)
        sig = '%s %s(%s)' % (cret, fname(name), ', '.join('%s %s' % (T.ctype(t), cname(n)) for t, n in ps) or 'void')
        decls = {}
        code = []
        blocks = []
        cur = ['entry', []]
        # first block label: clang numbers it after the params; find from first phi preds or use implicit
        for ln in body:
            m = re.match(r'^([A-Za-z0-9_.$-]+):', ln)
            if m:
                blocks.append(cur)
                cur = [m.group(1), []]
            elif ln.strip() and not ln.strip().startswith(';'):
                t = ln.strip()
                if (t.startswith('to label') or t.startswith('cleanup') or t.startswith('catch ') or t.startswith('filter ') or (cur[1] and cur[1][-1].count('[') > cur[1][-1].count(']') and 'switch' in cur[1][-1])) and cur[1]:
                    cur[1][-1] += ' ' + t
                else:
                    cur[1].append(t)
        blocks.append(cur)
        # implicit entry label = number after params
        nparams = len(ps)
        entry_label = str(nparams)
        blocks[0][0] = entry_label
        phis = {}  # block -> list of (var, ty, [(val, pred)])
        for lab, ins in blocks:
            for s in ins:
                m = re.match(r'(%[^ ]+) = phi (.*?) (\[.*)$', s)
                if m:
                    var, ty, rest = m.group(1), m.group(2), m.group(3)
                    inc = []
                    for part in split_top(rest):
                        part = part.strip()
                        if part.startswith('[') and part.endswith(']'):
                            inner = part[1:-1].strip()
                            k = inner.rfind(',')
                            inc.append((inner[:k].strip(), inner[k + 1:].strip()))
                    phis.setdefault(lab, []).append((var, ty, inc))
                    decls[cname(var)] = T.ctype(ty)
                    decls[cname(var) + '_phi'] = T.ctype(ty)

        def lab_c(l):
            return 'L_' + re.sub(r'[^A-Za-z0-9_]', '_', l.lstrip('%'))

        def goto(frm, to):
            to = to.lstrip('%')
            s = []
            for var, ty, inc in phis.get(to, []):
                for val, pred in inc:
                    if pred.lstrip('%') == frm:
                        s.append('%s_phi = %s;' % (cname(var), self.const_or_val(ty, val)))
            s.append('goto %s;' % lab_c(to))
            return ' '.join(s)

        zero_ret = '' if cret == 'void' else (' 0' if not cret.startswith('struct ') else ' (%s){0}' % cret)
        for lab, ins in blocks:
            code.append('%s: ;' % lab_c(lab))
            for var, ty, inc in phis.get(lab, []):
                code.append('  %s = %s_phi;' % (cname(var), cname(var)))
            for s in ins:
                s = re.sub(r', ![A-Za-z0-9_.]+ ![0-9]+', '', s)
                s = re.sub(r' #\d+$', '', s)
                if re.match(r'(%[^ ]+) = phi ', s):
                    continue
                code.append('  ' + self.instr(s, lab, decls, goto, zero_ret))
        self.out.append(sig + ' {')
        for v, t in sorted(decls.items()):
            self.out.append('  %s %s;' % (t, v) if not t.startswith('ARR:') else '  long long %s[%s];' % (v, t[4:]))
        self.out.append('  goto %s;' % lab_c(entry_label))
        self.out += code
        self.out.append('}')
        return sig

    def instr(self, s, lab, decls, goto, zero_ret):
        T = self.T
        m = re.match(r'(%[^ ]+) = (.*)$', s)
        dst, rhs = (m.group(1), m.group(2)) if m else (None, s)

        def setv(ty, expr):
            decls[cname(dst)] = T.ctype(ty)
            return '%s = %s;' % (cname(dst), expr)
        op = rhs.split(' ', 1)[0]
        if op == 'alloca':
            mm = re.match(r'alloca (.*?)(, align \d+)?$', rhs)
            ty = mm.group(1)
            mm2 = re.match(r'(.*), (i\d+) (.*)$', ty)
            if mm2:
                raise Err('dynamic alloca')
            sz, _ = T.size_align(ty)
            buf = cname(dst) + '_buf'
            decls[buf] = 'ARR:%d' % max(1, (sz + 7) // 8)
            decls[cname(dst)] = 'char *'
            return '%s = (char *)%s;' % (cname(dst), buf)
        if op in ('bitcast', 'addrspacecast'):
            mm = re.match(r'\w+ (.*) (\S+) to (.*)$', rhs)
            return setv(mm.group(3), self.const_or_val(mm.group(1), mm.group(2)))
        if op == 'getelementptr':
            mm = re.match(r'getelementptr (inbounds )?(.*)$', rhs)
            args = split_top(mm.group(2))
            basety = args[0]
            pt, pv = args[1].rsplit(' ', 1)
            idx = [a.rsplit(' ', 1) for a in args[2:]]
            decls[cname(dst)] = 'char *'
            return '%s = %s;' % (cname(dst), self.gep_expr(basety, self.const_or_val(pt, pv), idx))
        if op in ('load', 'store') and ' atomic ' in rhs:
            rhs = re.sub(r' atomic ', ' ', rhs)
            rhs = re.sub(r'(,)? (unordered|monotonic|acquire|release|acq_rel|seq_cst)(?=,| |$)', '', rhs)
        if op == 'load':
            parts = split_top(re.sub(r'^load (volatile )?', '', rhs))
            ty = parts[0]
            pt, pv = split_tv(parts[1])
            return setv(ty, '*(%s *)%s' % (T.ctype(ty), self.const_or_val(pt, pv)))
        if op == 'store':
            parts = split_top(re.sub(r'^store (volatile )?', '', rhs))
            ty, val = split_tv(parts[0])
            pt, pv = split_tv(parts[1])
            return '*(%s *)%s = %s;' % (T.ctype(ty), self.const_or_val(pt, pv), self.const_or_val(ty, val))
        if op in ('add', 'sub', 'mul', 'shl'):
            mm = re.match(r'(\w+) (nuw )?(nsw )?(nuw )?(.*?) (\S+), (\S+)$', rhs)
            nsw = bool(mm.group(3))
            ty = mm.group(5)
            a, b = self.const_or_val(ty, mm.group(6)), self.const_or_val(ty, mm.group(7))
            ct = T.ctype(ty)
            ut = 'u' + ct
            sym = {'add': '+', 'sub': '-', 'mul': '*', 'shl': '<<'}[op]
            if nsw and op != 'shl':
                return setv(ty, '(%s)((%s)%s %s (%s)%s)' % (ct, ct, a, sym, ct, b))
            return setv(ty, '(%s)((%s)%s %s (%s)%s)' % (ct, ut, a, sym, ut, b))
        if op in ('sdiv', 'srem', 'udiv', 'urem', 'lshr', 'ashr', 'and', 'or', 'xor'):
            mm = re.match(r'(\w+) (exact )?(.*?) (\S+), (\S+)$', rhs)
            ty = mm.group(3)
            a, b = self.const_or_val(ty, mm.group(4)), self.const_or_val(ty, mm.group(5))
            ct = T.ctype(ty)
            ut = 'u' + ct
            if op in ('sdiv', 'srem'):
                return setv(ty, '(%s)((%s)%s %s (%s)%s)' % (ct, ct, a, '/' if op == 'sdiv' else '%', ct, b))
            if op in ('udiv', 'urem', 'lshr'):
                sym = {'udiv': '/', 'urem': '%', 'lshr': '>>'}[op]
                return setv(ty, '(%s)((%s)%s %s (%s)%s)' % (ct, ut, a, sym, ut, b))
            if op == 'ashr':
                return setv(ty, '(%s)((%s)%s >> (%s)%s)' % (ct, ct, a, ut, b))
            sym = {'and': '&', 'or': '|', 'xor': '^'}[op]
            return setv(ty, '(%s)((%s)%s %s (%s)%s)' % (ct, ut, a, sym, ut, b))
        if op == 'icmp':
            mm = re.match(r'icmp (\w+) (.*?) (\S+), (\S+)$', rhs)
            pred, ty = mm.group(1), mm.group(2)
            a, b = self.const_or_val(ty, mm.group(3)), self.const_or_val(ty, mm.group(4))
            if T.is_ptr(ty):
                ct, ut = 'uintptr_t', 'uintptr_t'
            else:
                ct = T.ctype(ty)
                ut = 'u' + ct if ct.startswith('int') else ct
            sym = {'eq': '==', 'ne': '!=', 'slt': '<', 'sle': '<=', 'sgt': '>', 'sge': '>=', 'ult': '<', 'ule': '<=', 'ugt': '>', 'uge': '>='}[pred]
            cast = ct if pred[0] == 's' else ut
            decls[cname(dst)] = 'uint8_t'
            return '%s = ((%s)%s %s (%s)%s) ? 1 : 0;' % (cname(dst), cast, a, sym, cast, b)
        if op == 'fcmp':
            mm = re.match(r'fcmp (\w+) (.*?) (\S+), (\S+)$', rhs)
            pred, ty = mm.group(1), mm.group(2)
            a, b = self.const_or_val(ty, mm.group(3)), self.const_or_val(ty, mm.group(4))
            sym = {'oeq': '==', 'one': '!=', 'olt': '<', 'ole': '<=', 'ogt': '>', 'oge': '>=', 'ueq': '==', 'une': '!=', 'ult': '<', 'ule': '<=', 'ugt': '>', 'uge': '>='}[pred]
            decls[cname(dst)] = 'uint8_t'
            return '%s = (%s %s %s) ? 1 : 0;' % (cname(dst), a, sym, b)
        if op == 'select':
            mm = re.match(r'select i1 (\S+), (.*?) (\S+), (.*?) (\S+)$', rhs)
            ty = mm.group(2)
            return setv(ty, '%s ? %s : %s' % (self.const_or_val('i1', mm.group(1)), self.const_or_val(ty, mm.group(3)), self.const_or_val(mm.group(4), mm.group(5))))
        if op in ('zext', 'sext', 'trunc', 'ptrtoint', 'inttoptr', 'sitofp', 'uitofp', 'fptosi', 'fptoui', 'fpext', 'fptrunc'):
            mm = re.match(r'(\w+) (.*) (\S+) to (.*)$', rhs)
            fty, v, tty = mm.group(2), mm.group(3), mm.group(4)
            a = self.const_or_val(fty, v)
            fct = T.ctype(fty)
            tct = T.ctype(tty)
            if op == 'zext':
                fb = T.bits(fty)
                if fb == 1:
                    return setv(tty, '(%s)(%s & 1)' % (tct, a))
                return setv(tty, '(%s)(u%s)%s' % (tct, fct, a))
            if op == 'trunc':
                tb = T.bits(tty)
                if tb == 1:
                    return setv(tty, '(uint8_t)(%s & 1)' % a)
                return setv(tty, '(%s)%s' % (tct, a))
            if op == 'ptrtoint':
                return setv(tty, '(%s)(uintptr_t)%s' % (tct, a))
            if op == 'inttoptr':
                return setv(tty, '(char *)(uintptr_t)%s' % a)
            if op == 'uitofp':
                return setv(tty, '(%s)(u%s)%s' % (tct, fct, a))
            return setv(tty, '(%s)%s' % (tct, a))
        if op in ('fadd', 'fsub', 'fmul', 'fdiv'):
            mm = re.match(r'(\w+) (?:\w+ )*?(double|float) (\S+), (\S+)$', rhs)
            ty = mm.group(2)
            sym = {'fadd': '+', 'fsub': '-', 'fmul': '*', 'fdiv': '/'}[op]
            return setv(ty, '%s %s %s' % (self.const_or_val(ty, mm.group(3)), sym, self.const_or_val(ty, mm.group(4))))
        if op == 'br':
            mm = re.match(r'br label (%\S+)$', rhs)
            if mm:
                return goto(lab, mm.group(1))
            mm = re.match(r'br i1 (\S+), label (%\S+), label (%\S+)$', rhs)
            return 'if (%s) { %s } else { %s }' % (self.const_or_val('i1', mm.group(1)), goto(lab, mm.group(2)), goto(lab, mm.group(3)))
        if op == 'switch':
            mm = re.match(r'switch (.*?) (\S+), label (%\S+) \[(.*)\]$', rhs)
            ty, v, dflt, cases = mm.group(1), mm.group(2), mm.group(3), mm.group(4)
            out = []
            for cty, cv, cl in re.findall(r'(i\d+) (-?\d+), label (%\S+)', cases):
                out.append('if (%s == %s) { %s }' % (self.const_or_val(ty, v), self.const_or_val(cty, cv), goto(lab, cl)))
            out.append(goto(lab, dflt))
            return ' '.join(out)
        if op == 'ret':
            if rhs.strip() == 'ret void':
                return 'return;'
            mm = re.match(r'ret (.*) (\S+)$', rhs)
            return 'return %s;' % self.const_or_val(mm.group(1), mm.group(2))
        if op == 'unreachable':
            return '__CPROVER_assume(0);'
        if op == 'resume':
            return 'return%s;' % zero_ret
        if op == 'landingpad':
            mm = re.match(r'landingpad (\{.*?\})', rhs)
            ty = mm.group(1)
            decls[cname(dst)] = T.ctype(ty)
            return '%s = (%s){0, 1}; g_exc = 0; /* caught here; selector 1 = the only exception type of the unit */' % (cname(dst), T.ctype(ty))
        if op == 'extractvalue':
            mm = re.match(r'extractvalue (\{.*\}) (\S+), (\d+)$', rhs)
            ty, src, idx = mm.group(1), mm.group(2), int(mm.group(3))
            nm, fields = T.agg(ty)
            return setv(fields[idx], '%s.f%d' % (self.const_or_val(ty, src), idx))
        if op == 'insertvalue':
            mm = re.match(r'insertvalue (\{.*?\}) (\S+), (.*) (\S+), (\d+)$', rhs)
            ty, src, fty, val, idx = mm.group(1), mm.group(2), mm.group(3), mm.group(4), int(mm.group(5))
            decls[cname(dst)] = T.ctype(ty)
            return '%s = %s; %s.f%d = %s;' % (cname(dst), self.const_or_val(ty, src), cname(dst), idx, self.const_or_val(fty, val))
        if op in ('call', 'invoke', 'tail', 'musttail', 'notail'):
            return self.call(dst, rhs, lab, decls, goto, zero_ret)
        if op == 'freeze':
            mm = re.match(r'freeze (.*) (\S+)$', rhs)
            return setv(mm.group(1), self.const_or_val(mm.group(1), mm.group(2)))
        raise Err('instruction: ' + s)

    def call(self, dst, rhs, lab, decls, goto, zero_ret):
        T = self.T
        rhs = re.sub(r'^(tail |musttail |notail )', '', rhs)
        invoke = rhs.startswith('invoke')
        mm = re.match(r'(?:call|invoke) (.*?)(@[^ (]+|@"[^"]+"|%[^ (]+)\((.*)\)(.*)$', rhs)
        if not mm:
            raise Err('call ' + rhs)
        pre, callee, args, tail = mm.group(1), mm.group(2), mm.group(3), mm.group(4)
        pre = strip_attrs(re.sub(r'\b(fastcc|ccc|coldcc)\b', '', pre))
        pre = re.sub(r'\(.*\)\*?$', '', pre).strip()  # varargs function type
        rett = pre
        cargs = []
        for a in split_top(args):
            a = strip_attrs(a)
            if not a:
                continue
            t, v = split_tv(a)
            cargs.append(self.const_or_val(t, v))
        normal = unwind = None
        if invoke:
            m2 = re.search(r'to label (%\S+) unwind label (%\S+)', tail)
            normal, unwind = m2.group(1), m2.group(2)
        name = callee
        stmt = None
        if name.startswith('@llvm.lifetime') or name.startswith('@llvm.dbg') or name.startswith('@llvm.assume') or name.startswith('@llvm.experimental.noalias') \
                or name.startswith('@llvm.invariant'):
            stmt = ';'
        elif name.startswith('@llvm.eh.typeid.for'):
            decls[cname(dst)] = 'int32_t'
            stmt = '%s = 1;' % cname(dst)
        elif name.startswith('@llvm.abs.'):
            ct = T.ctype(rett)
            stmt = '%s = ((%s)%s < 0) ? (%s)(-(%s)%s) : (%s)%s;' % (cname(dst), ct, cargs[0], ct, ct, cargs[0], ct, cargs[0])
            decls[cname(dst)] = ct
        elif re.match(r'@llvm\.(umax|umin|smax|smin)\.', name):
            ct = T.ctype(rett)
            k = name.split('.')[1]
            cast = ct if k[0] == 's' else 'u' + ct
            sym = '>' if k.endswith('max') else '<'
            stmt = '%s = ((%s)%s %s (%s)%s) ? %s : %s;' % (cname(dst), cast, cargs[0], sym, cast, cargs[1], cargs[0], cargs[1])
            decls[cname(dst)] = ct
        elif name.startswith('@llvm.memcpy') or name.startswith('@llvm.memmove'):
            stmt = 'ir2c_memcpy(%s, %s, %s);' % (cargs[0], cargs[1], cargs[2])
        elif name.startswith('@llvm.memset'):
            stmt = 'ir2c_memset(%s, %s, %s);' % (cargs[0], cargs[1], cargs[2])
        else:
            fn = fname(name) if name.startswith('@') else '((%s (*)())%s)' % (T.ctype(rett), cname(name))
            callexpr = '%s(%s)' % (fn, ', '.join(cargs))
            if dst and rett != 'void':
                decls[cname(dst)] = T.ctype(rett)
                stmt = '%s = %s;' % (cname(dst), callexpr)
            else:
                stmt = callexpr + ';'
            self.used_externals.add(name) if name.startswith('@') and name not in self.defined else None
            if invoke:
                stmt += ' if (g_exc) { %s } else { %s }' % (goto(lab, unwind), goto(lab, normal))
            else:
                stmt += ' if (g_exc) return%s;' % zero_ret
            return stmt
        if invoke:
            stmt += ' ' + goto(lab, normal)
        return stmt

    # ---------------------------------------------------------------- driver
    def translate(self, roots):
        self.used_externals = set()
        todo = list(roots)
        done = []
        bodies = []
        while todo:
            f = todo.pop()
            if f in done or f not in self.defined:
                continue
            done.append(f)
            start = len(self.out)
            sig = self.emit_function(f)
            bodies.append((sig, self.out[start:]))
            del self.out[start:]
            for ln in self.defined[f][2]:
                for callee in re.findall(r'(?:call|invoke) [^@]*?(@[^ (]+|@"[^"]+")\(', ln):
                    if callee in self.defined and callee not in done:
                        todo.append(callee)
                for ref in re.findall(r'(@[A-Za-z0-9_.$]+)', ln):
                    if ref in self.defined and ref not in done and ref not in todo:
                        todo.append(ref)
        hdr = ['/* generated by ir2c.py — do not edit */', '#include <stdint.h>', '#include <stddef.h>',
               'extern int g_exc;', 'void __CPROVER_assume(_Bool);',
               'void ir2c_memcpy(char *d, char *s, int64_t n); void ir2c_memset(char *d, int8_t v, int64_t n);',
               'double ir2c_hexdouble(uint64_t bits);']
        # globals that are referenced
        alltext = '\n'.join('\n'.join(b) for _, b in bodies)
        for g, defn in self.globals.items():
            if cname(g) in alltext:
                m = re.search(r'(?:constant|global) (\[\d+ x i8\]) c"(.*)"', defn)
                if m:
                    n = int(re.match(r'\[(\d+)', m.group(1)).group(1))
                    raw = m.group(2)
                    bs, k = [], 0
                    while k < len(raw):
                        if raw[k] == '\\' and k + 2 < len(raw) + 1 and re.match(r'[0-9A-Fa-f]{2}', raw[k + 1:k + 3]):
                            bs.append(int(raw[k + 1:k + 3], 16))
                            k += 3
                        else:
                            bs.append(ord(raw[k]))
                            k += 1
                    hdr.append('char %s[%d] = {%s};' % (cname(g), n, ','.join(str(b if b < 128 else b - 256) for b in bs[:n])))
                    continue
                m = re.search(r'(?:constant|global) (.*?)( zeroinitializer| undef|, align| \{)', defn + ' ')
                try:
                    ty = re.search(r'(?:external |dso_local |private |internal |unnamed_addr |local_unnamed_addr |linkonce_odr |hidden |thread_local )*(?:constant|global) (.*?)(?: zeroinitializer| undef|, align|, comdat| null| \d| -\d|$)', defn).group(1)
                    sz, _ = self.T.size_align(ty)
                except Exception:
                    sz = 64
                hdr.append('long long %s[%d];' % (cname(g), max(1, (sz + 7) // 8)))
        protos = []
        for sig, _ in bodies:
            protos.append(sig + ';')
        for ext in sorted(self.used_externals):
            if ext in self.declared:
                ln = self.declared[ext]
                m = re.match(r'declare (.*?)(@[^ (]+|@"[^"]+")\((.*)\)', ln)
                rett = strip_attrs(re.sub(r'\b(dso_local|noalias|local_unnamed_addr|unnamed_addr)\b', '', m.group(1)))
                ps = []
                for p in split_top(m.group(3)):
                    p = strip_attrs(p)
                    if not p:
                        continue
                    if p == '...':
                        ps.append('...')
                        continue
                    ps.append(self.T.ctype(p))
                protos.append('%s %s(%s); /* external: needs a model */' % (self.T.ctype(rett), fname(ext), ', '.join(ps) or 'void'))
        body = []
        for _, b in bodies:
            body += b
        return '\n'.join(hdr + self.T.agg_decls() + protos + body) + '\n'


def main():
    import argparse
    ap = argparse.ArgumentParser()
    ap.add_argument('ll')
    ap.add_argument('--roots', required=True, help='comma separated @names')
    ap.add_argument('-o', required=True)
    a = ap.parse_args()
    tr = Translator(open(a.ll).read())
    c = tr.translate(['@' + r for r in a.roots.split(',')])
    open(a.o, 'w').write(c)
    sys.stderr.write('ir2c: %d functions, externals: %s\n' % (c.count('\nL_') and len([1 for l in c.splitlines() if l.endswith(' {')]), sorted(tr.used_externals)))


if __name__ == '__main__':
    main()
