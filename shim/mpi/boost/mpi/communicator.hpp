#include "mpisim.hpp"
