#include "mpisim.hpp"
