#include "mpisim.hpp"
