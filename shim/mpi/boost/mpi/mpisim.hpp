// In-process SPMD simulator of the boost::mpi subset that parmcb uses.  Ranks are ucontext coroutines on private
// stacks; a collective is a rendezvous of ALL ranks at the same (sequence number, kind, root); mismatched or missing
// collectives are detected as deadlock.  Objects are passed by value (no serialisation).  The fold order of a
// reduce whose operation is declared commutative is a scheduling decision delegated to mpisim::hooks().
#pragma once
#include <ucontext.h>
#include <cstdlib>
#include <deque>
#include <functional>
#include <string>
#include <vector>
#include <boost/mpl/bool.hpp>

namespace mpisim {

enum Kind { K_BROADCAST = 1, K_REDUCE = 2, K_SCATTER = 3, K_GATHER = 4, K_BARRIER = 5 };

struct Slot { const void *in = nullptr; void *out = nullptr; };
struct Coll {
    int kind = 0, root = 0, arrived = 0, departed = 0;
    std::vector<Slot> slots;
};

struct Hooks {
    // permutation of 0..P-1 in which the contributions of a commutative reduce are folded
    std::function<std::vector<int>(int)> reduce_order;
};
inline Hooks &hooks() { static Hooks h; return h; }

struct World {
    int P = 1;
    std::deque<Coll> colls;
    std::vector<int> next_coll;
    std::vector<char> finished;
    std::vector<std::string> error;   // exception text per rank
    int cur = 0;
    long progress = 0;
    bool deadlock = false, abort = false;
    std::string diag;
    ucontext_t sched_ctx;
    std::vector<ucontext_t> ctx;
    std::vector<char *> stacks;
    std::function<void(int)> body;
    long collectives_done = 0;
};
inline World *&W() { static World *w = nullptr; return w; }

inline void yield() { World *w = W(); swapcontext(&w->ctx[w->cur], &w->sched_ctx); }

inline void tramp(int r) {
    World *w = W();
    try {
        w->body(r);
    } catch (std::exception &ex) {
        w->error[r] = std::string("exception: ") + ex.what();
    } catch (...) {
        w->error[r] = "unknown exception";
    }
    w->finished[r] = 1;
    w->progress++;
    swapcontext(&w->ctx[r], &w->sched_ctx);
}

// run P ranks to completion (or deadlock).  Returns false on deadlock.
inline bool run(int P, const std::function<void(int)> &body, std::size_t stack_bytes = 1 << 20) {
    World *w = new World();
    W() = w;
    w->P = P;
    w->next_coll.assign(P, 0);
    w->finished.assign(P, 0);
    w->error.assign(P, "");
    w->ctx.resize(P);
    w->body = body;
    for (int r = 0; r < P; r++) {
        char *st = (char *) malloc(stack_bytes);
        w->stacks.push_back(st);
        getcontext(&w->ctx[r]);
        w->ctx[r].uc_stack.ss_sp = st;
        w->ctx[r].uc_stack.ss_size = stack_bytes;
        w->ctx[r].uc_link = &w->sched_ctx;
        makecontext(&w->ctx[r], (void (*)()) tramp, 1, r);
    }
    while (true) {
        bool all = true;
        for (int r = 0; r < P; r++) if (!w->finished[r]) all = false;
        if (all) break;
        long before = w->progress;
        for (int r = 0; r < P; r++) {
            if (w->finished[r]) continue;
            w->cur = r;
            swapcontext(&w->sched_ctx, &w->ctx[r]);
        }
        if (w->progress == before) {
            w->deadlock = true;
            w->abort = true;
            std::string s = "no progress: ";
            for (int r = 0; r < P; r++) {
                s += "rank" + std::to_string(r) + (w->finished[r] ? "=returned " : "=waiting-at-collective#" + std::to_string(w->next_coll[r] - 1) + " ");
            }
            w->diag += s;
            break;
        }
    }
    return !w->deadlock;
}

inline Coll &enter(int kind, int root, const void *in, void *out) {
    World *w = W();
    int r = w->cur;
    int g = w->next_coll[r]++;
    while ((int) w->colls.size() <= g) {
        w->colls.emplace_back();
        w->colls.back().slots.resize(w->P);
    }
    Coll &c = w->colls[g];
    if (c.kind == 0) { c.kind = kind; c.root = root; }
    else if (c.kind != kind || c.root != root) {
        w->diag += "collective #" + std::to_string(g) + ": rank " + std::to_string(r) + " calls kind " + std::to_string(kind) +
                   " while another rank called kind " + std::to_string(c.kind) + "; ";
        w->deadlock = true;
    }
    c.slots[r].in = in;
    c.slots[r].out = out;
    c.arrived++;
    w->progress++;
    while (c.arrived < w->P) { w->cur = r; yield(); }
    return c;
}

inline void leave(Coll &c) {
    World *w = W();
    int r = w->cur;
    c.departed++;
    w->progress++;
    if (c.departed == w->P) w->collectives_done++;
    while (c.departed < w->P) { w->cur = r; yield(); }
    w->cur = r;
}

} // namespace mpisim

namespace boost { namespace mpi {

template<class Op, class T> struct is_commutative : public mpl::false_ {};
template<class T> struct is_mpi_datatype : public mpl::false_ {};

namespace threading { enum level { single, funneled, serialized, multiple }; }

class environment {
public:
    environment() {}
    environment(int &, char **&, bool = true) {}
    environment(int &, char **&, threading::level, bool = true) {}
    static threading::level thread_level() { return threading::multiple; }
    static std::string processor_name() { return "mpisim"; }
};

class communicator {
public:
    communicator() {}
    int rank() const { return mpisim::W()->cur; }
    int size() const { return mpisim::W()->P; }
};

class timer {
public:
    double elapsed() const { return 0.0; }
    void restart() {}
};

template<class T>
void broadcast(const communicator &, T &value, int root) {
    mpisim::Coll &c = mpisim::enter(mpisim::K_BROADCAST, root, &value, &value);
    int r = mpisim::W()->cur;
    if (r != root) value = *static_cast<const T *>(c.slots[root].in);
    mpisim::leave(c);
}

template<class T, class Op>
void reduce(const communicator &, const T &in_value, T &out_value, Op op, int root) {
    mpisim::Coll &c = mpisim::enter(mpisim::K_REDUCE, root, &in_value, &out_value);
    int r = mpisim::W()->cur, P = mpisim::W()->P;
    if (r == root) {
        std::vector<int> order;
        if (is_commutative<Op, T>::value && mpisim::hooks().reduce_order) order = mpisim::hooks().reduce_order(P);
        if ((int) order.size() != P) { order.clear(); for (int i = 0; i < P; i++) order.push_back(i); }
        T acc = *static_cast<const T *>(c.slots[order[0]].in);
        for (int i = 1; i < P; i++) { T nxt = op(acc, *static_cast<const T *>(c.slots[order[i]].in)); acc = nxt; }
        out_value = acc;
    }
    mpisim::leave(c);
}

template<class T, class Op>
void reduce(const communicator &comm, const T &in_value, Op op, int root) {
    T dummy = in_value;
    reduce(comm, in_value, dummy, op, root);
}

template<class T>
void scatter(const communicator &, const std::vector<T> &in_values, T &out_value, int root) {
    mpisim::Coll &c = mpisim::enter(mpisim::K_SCATTER, root, &in_values, &out_value);
    int r = mpisim::W()->cur;
    const std::vector<T> &src = *static_cast<const std::vector<T> *>(c.slots[root].in);
    out_value = src.at((std::size_t) r);
    mpisim::leave(c);
}

template<class T>
void scatter(const communicator &comm, T &out_value, int root) {
    std::vector<T> none;
    scatter(comm, none, out_value, root);
}

inline void barrier_impl() { mpisim::Coll &c = mpisim::enter(mpisim::K_BARRIER, 0, nullptr, nullptr); mpisim::leave(c); }

} } // namespace boost::mpi
