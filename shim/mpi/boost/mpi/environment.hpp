#include "mpisim.hpp"
