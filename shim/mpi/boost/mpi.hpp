#include "mpi/mpisim.hpp"
