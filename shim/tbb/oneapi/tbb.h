#include "../tbb/tbbshim.hpp"
