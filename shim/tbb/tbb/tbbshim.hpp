// Scheduler shim for the subset of oneTBB that parmcb uses.  Harness builds put this directory first
// on the include path, so <tbb/...> resolves here and no libtbb is linked.  Every scheduling decision a
// real TBB runtime may take is delegated to tbbshim::sched() — a harness installs a scheduler whose
// decisions are symbolic choices (see harness/h_tbb.cpp); the default scheduler runs everything as one
// chunk, in order.
#pragma once
#include <cstddef>
#include <deque>
#include <functional>
#include <iterator>
#include <string>
#include <utility>
#include <vector>

namespace tbbshim {

// A schedule of a range of length L for parallel_for: contiguous chunks in execution order.
// A schedule for parallel_reduce: leaves (contiguous, in range order), runs (consecutive leaves folded
// from a fresh copy of the identity) and an order-preserving join tree over the runs.
struct ReduceSchedule {
    std::vector<std::pair<std::size_t, std::size_t>> leaves; // [b,e) offsets, in order, covering [0,L)
    std::vector<std::size_t> run_start;                      // indices into leaves where a new run starts (first is 0)
    std::vector<int> join;                                   // join order: sequence of adjacent-pair indices to merge
};

struct Scheduler {
    virtual ~Scheduler() {}
    // chunks (offset pairs) in the order they are executed
    virtual std::vector<std::pair<std::size_t, std::size_t>> for_schedule(std::size_t L) {
        std::vector<std::pair<std::size_t, std::size_t>> r;
        if (L) r.emplace_back(0, L);
        return r;
    }
    virtual ReduceSchedule reduce_schedule(std::size_t L) {
        ReduceSchedule s;
        if (L) { s.leaves.emplace_back(0, L); s.run_start.push_back(0); }
        return s;
    }
    // number of alternative reduce schedules to evaluate side by side (0 = just reduce_schedule())
    virtual std::vector<ReduceSchedule> all_reduce_schedules(std::size_t) { return {}; }
    // called with the results of all alternative schedules; returns index of the one to continue with
    virtual std::size_t pick(std::size_t n) { (void) n; return 0; }
};

inline Scheduler *&sched() {
    static Scheduler dflt;
    static Scheduler *s = &dflt;
    return s;
}

// hook through which a harness compares results of alternative schedules (installed per value type)
template<class V> struct Agree {
    static std::function<void(const std::vector<V> &, const std::vector<ReduceSchedule> &)> &hook() {
        static std::function<void(const std::vector<V> &, const std::vector<ReduceSchedule> &)> h;
        return h;
    }
};

} // namespace tbbshim

namespace tbb {

struct split {};

template<class T>
class blocked_range {
public:
    typedef T const_iterator;
    typedef std::size_t size_type;
    blocked_range(T b, T e, size_type grain = 1) : b_(b), e_(e), grain_(grain) {}
    T begin() const { return b_; }
    T end() const { return e_; }
    size_type size() const { return size_type(e_ - b_); }
    size_type grainsize() const { return grain_; }
    bool empty() const { return !(b_ < e_); }
    bool is_divisible() const { return grain_ < size(); }
private:
    T b_, e_;
    size_type grain_;
};

template<class Range, class Body>
void parallel_for(const Range &range, const Body &body) {
    std::size_t L = range.empty() ? 0 : range.size();
    if (L == 0) return; // TBB never invokes the body on an empty range
    auto chunks = tbbshim::sched()->for_schedule(L);
    for (auto &c : chunks) {
        Range sub(range.begin() + c.first, range.begin() + c.second, range.grainsize());
        body(sub);
    }
}

template<class Range, class Value, class RealBody, class Reduction>
Value shim_run_reduce(const Range &range, const Value &identity, const RealBody &real_body, const Reduction &reduction,
        const tbbshim::ReduceSchedule &s) {
    // fold each run from a copy of the identity
    std::vector<Value> runs;
    for (std::size_t r = 0; r < s.run_start.size(); r++) {
        std::size_t lb = s.run_start[r], le = (r + 1 < s.run_start.size()) ? s.run_start[r + 1] : s.leaves.size();
        Value v = identity;
        for (std::size_t l = lb; l < le; l++) {
            Range sub(range.begin() + s.leaves[l].first, range.begin() + s.leaves[l].second, range.grainsize());
            v = real_body(sub, v);
        }
        runs.push_back(v);
    }
    // order-preserving joins: s.join lists positions p; merge runs[p] and runs[p+1]
    std::size_t ji = 0;
    while (runs.size() > 1) {
        std::size_t p = (ji < s.join.size()) ? (std::size_t) s.join[ji] : 0;
        ji++;
        if (p + 1 >= runs.size()) p = runs.size() - 2;
        Value v = reduction(runs[p], runs[p + 1]);
        runs[p] = v;
        runs.erase(runs.begin() + p + 1);
    }
    return runs[0];
}

template<class Range, class Value, class RealBody, class Reduction>
Value parallel_reduce(const Range &range, const Value &identity, const RealBody &real_body, const Reduction &reduction) {
    std::size_t L = range.empty() ? 0 : range.size();
    if (L == 0) return identity;
    auto alts = tbbshim::sched()->all_reduce_schedules(L);
    if (alts.empty()) {
        return shim_run_reduce(range, identity, real_body, reduction, tbbshim::sched()->reduce_schedule(L));
    }
    std::vector<Value> results;
    for (auto &s : alts) results.push_back(shim_run_reduce(range, identity, real_body, reduction, s));
    if (tbbshim::Agree<Value>::hook()) tbbshim::Agree<Value>::hook()(results, alts);
    return results[tbbshim::sched()->pick(results.size())];
}

template<class T>
class concurrent_vector {
public:
    typedef typename std::deque<T>::iterator iterator;
    typedef typename std::deque<T>::const_iterator const_iterator;
    typedef std::size_t size_type;
    typedef T value_type;
    typedef blocked_range<iterator> range_type;
    typedef blocked_range<const_iterator> const_range_type;
    concurrent_vector() {}
    iterator push_back(const T &v) { d_.push_back(v); return d_.end() - 1; }
    template<class... A> iterator emplace_back(A &&... a) { d_.emplace_back(std::forward<A>(a)...); return d_.end() - 1; }
    T &operator[](size_type i) { return d_[i]; }
    const T &operator[](size_type i) const { return d_[i]; }
    T &at(size_type i) { return d_.at(i); }
    const T &at(size_type i) const { return d_.at(i); }
    size_type size() const { return d_.size(); }
    bool empty() const { return d_.empty(); }
    iterator begin() { return d_.begin(); }
    iterator end() { return d_.end(); }
    const_iterator begin() const { return d_.begin(); }
    const_iterator end() const { return d_.end(); }
    const_iterator cbegin() const { return d_.begin(); }
    const_iterator cend() const { return d_.end(); }
    range_type range(size_type grain = 1) { return range_type(begin(), end(), grain); }
    void clear() { d_.clear(); }
private:
    std::deque<T> d_; // deque: push_back never relocates elements (as in TBB)
};

class task_group {
public:
    template<class F> void run(const F &f) { f(); }
    void wait() {}
};

// life-cycle model of oneTBB's global_control (only what parmcb touches)
class global_control {
public:
    enum parameter { max_allowed_parallelism, thread_stack_size, terminate_on_exception, parameter_max };
    global_control(parameter p, std::size_t v) : p_(p), v_(v) { live().push_back(this); }
    ~global_control() {
        auto &l = live();
        for (auto it = l.begin(); it != l.end(); ++it) if (*it == this) { l.erase(it); break; }
    }
    static std::size_t active_value(parameter p) {
        std::size_t best = 0;
        bool any = false;
        for (auto *g : live()) if (g->p_ == p && (!any || g->v_ < best)) { best = g->v_; any = true; }
        return any ? best : default_value();
    }
    static std::size_t &default_value() { static std::size_t d = 16; return d; }
private:
    static std::vector<global_control *> &live() { static std::vector<global_control *> l; return l; }
    parameter p_;
    std::size_t v_;
};

} // namespace tbb

namespace oneapi { namespace tbb { using namespace ::tbb; } }

#ifndef TBB_VERSION_MAJOR
#define TBB_VERSION_MAJOR 2021
#define TBB_VERSION_MINOR 8
#endif
