#include "tbbshim.hpp"
