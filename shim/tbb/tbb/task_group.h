#include "tbbshim.hpp"
