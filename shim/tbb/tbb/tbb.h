#include "tbbshim.hpp"
