#include "tbbshim.hpp"
