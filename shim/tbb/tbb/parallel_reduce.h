#include "tbbshim.hpp"
