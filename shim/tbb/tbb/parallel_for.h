#include "tbbshim.hpp"
