#include "tbbshim.hpp"
