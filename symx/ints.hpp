// symx integer value types: Int (mathematical integers, z3 Int sort) and BV<WIDTH> (two's-complement machine
// integers with C++ semantics: wrapping +,-,*, truncating / and %, signed comparisons).
#pragma once
#include "symx.hpp"

namespace symx {

class Int {
public:
    z3::expr e;
    Int() : e(E()->ctx.int_val(0)) {}
    Int(int v) : e(E()->ctx.int_val(v)) {}
    Int(long v) : e(E()->ctx.int_val((int64_t) v)) {}
    Int(unsigned long v) : e(E()->ctx.int_val((uint64_t) v)) {}
    explicit Int(const z3::expr &x) : e(x) {}
    static Int variable(const std::string &name) {
        z3::expr v = E()->ctx.int_const(name.c_str());
        E()->ovars.push_back(v);
        return Int(v);
    }
    friend Int operator+(const Int &a, const Int &b) { return Int(a.e + b.e); }
    friend Int operator-(const Int &a, const Int &b) { return Int(a.e - b.e); }
    friend Int operator*(const Int &a, const Int &b) { return Int(a.e * b.e); }
    friend bool operator<(const Int &a, const Int &b) { return decide_expr(a.e < b.e); }
    friend bool operator>(const Int &a, const Int &b) { return decide_expr(a.e > b.e); }
    friend bool operator<=(const Int &a, const Int &b) { return decide_expr(a.e <= b.e); }
    friend bool operator>=(const Int &a, const Int &b) { return decide_expr(a.e >= b.e); }
    friend bool operator==(const Int &a, const Int &b) { return decide_expr(a.e == b.e); }
    friend bool operator!=(const Int &a, const Int &b) { return decide_expr(a.e != b.e); }
    friend std::ostream &operator<<(std::ostream &o, const Int &a) { return o << a.e; }
};

struct IntEvents {
    static bool &div_by_zero() { static bool b = false; return b; }
    static bool &overflow() { static bool b = false; return b; }
};

template<int WIDTH>
class BV {
public:
    z3::expr e;
    BV() : e(E()->ctx.bv_val(0, WIDTH)) {}
    BV(int v) : e(E()->ctx.bv_val((int64_t) v, WIDTH)) {}
    BV(long v) : e(E()->ctx.bv_val((int64_t) v, WIDTH)) {}
    BV(unsigned long v) : e(E()->ctx.bv_val((uint64_t) v, WIDTH)) {}
    BV(double v) : e(E()->ctx.bv_val((int64_t) v, WIDTH)) {}
    explicit BV(const z3::expr &x) : e(x) {}
    static BV variable(const std::string &name) {
        z3::expr v = E()->ctx.bv_const(name.c_str(), WIDTH);
        E()->ovars.push_back(v);
        return BV(v);
    }
    static z3::expr sx(const z3::expr &x, unsigned extra) { return z3::sext(x, extra); }
    // signed-overflow monitors (C++ UB for built-in signed types): recorded, the operation still wraps
    static void mon_add(const z3::expr &a, const z3::expr &b) {
        if (!monitor()) return;
        z3::expr wide = sx(a, 1) + sx(b, 1);
        if (decide_expr(wide != sx(a + b, 1))) IntEvents::overflow() = true;
    }
    static void mon_sub(const z3::expr &a, const z3::expr &b) {
        if (!monitor()) return;
        z3::expr wide = sx(a, 1) - sx(b, 1);
        if (decide_expr(wide != sx(a - b, 1))) IntEvents::overflow() = true;
    }
    static void mon_mul(const z3::expr &a, const z3::expr &b) {
        if (!monitor()) return;
        z3::expr wide = sx(a, WIDTH) * sx(b, WIDTH);
        if (decide_expr(wide != sx(a * b, WIDTH))) IntEvents::overflow() = true;
    }
    static bool &monitor() { static bool m = false; return m; }

    friend BV operator+(const BV &a, const BV &b) { mon_add(a.e, b.e); return BV((a.e + b.e).simplify()); }
    friend BV operator-(const BV &a, const BV &b) { mon_sub(a.e, b.e); return BV((a.e - b.e).simplify()); }
    friend BV operator*(const BV &a, const BV &b) { mon_mul(a.e, b.e); return BV((a.e * b.e).simplify()); }
    BV operator-() const { mon_sub(E()->ctx.bv_val(0, WIDTH), e); return BV((-e).simplify()); }
    friend BV operator/(const BV &a, const BV &b) {
        if (decide_expr(b.e == E()->ctx.bv_val(0, WIDTH))) { IntEvents::div_by_zero() = true; return BV(0); }
        return BV(z3::expr(a.e.ctx(), Z3_mk_bvsdiv(a.e.ctx(), a.e, b.e)).simplify());
    }
    friend BV operator%(const BV &a, const BV &b) {
        if (decide_expr(b.e == E()->ctx.bv_val(0, WIDTH))) { IntEvents::div_by_zero() = true; return BV(0); }
        return BV(z3::expr(a.e.ctx(), Z3_mk_bvsrem(a.e.ctx(), a.e, b.e)).simplify());
    }
    BV &operator+=(const BV &o) { *this = *this + o; return *this; }
    BV &operator-=(const BV &o) { *this = *this - o; return *this; }
    BV &operator*=(const BV &o) { *this = *this * o; return *this; }
    BV &operator++() { *this = *this + BV(1); return *this; }
    BV operator++(int) { BV t(*this); *this = *this + BV(1); return t; }
    friend bool operator<(const BV &a, const BV &b) { return decide_expr(a.e < b.e); }
    friend bool operator>(const BV &a, const BV &b) { return decide_expr(a.e > b.e); }
    friend bool operator<=(const BV &a, const BV &b) { return decide_expr(a.e <= b.e); }
    friend bool operator>=(const BV &a, const BV &b) { return decide_expr(a.e >= b.e); }
    friend bool operator==(const BV &a, const BV &b) { return decide_expr(a.e == b.e); }
    friend bool operator!=(const BV &a, const BV &b) { return decide_expr(a.e != b.e); }
    friend std::ostream &operator<<(std::ostream &o, const BV &a) { return o << a.e; }
    z3::expr wide(unsigned total) const { return z3::sext(e, total - WIDTH); }
};

// documented result of T(sqrt(double(p))) for non-negative p below 2^52: floor of the square root
template<int WIDTH>
BV<WIDTH> sqrt(const BV<WIDTH> &p) {
    static int seq = 0;
    z3::context &ctx = E()->ctx;
    z3::expr r = ctx.bv_const(("sqrt_" + std::to_string(seq++)).c_str(), WIDTH);
    E()->ovars.push_back(r);
    z3::expr rw = z3::sext(r, WIDTH), pw = z3::sext(p.e, WIDTH);
    assume(r >= ctx.bv_val(0, WIDTH) && (rw * rw) <= pw && ((rw + 1) * (rw + 1)) > pw);
    resolve_model();
    return BV<WIDTH>(r);
}

} // namespace symx
