// symx — fork-based symbolic execution of real C++ templates over z3.
//
// Every process carries ONE model of its path condition (PC).  Library code
// instantiated with symx value types runs concretely under that model; at each
// comparison the engine asks z3 whether the *other* outcome is feasible under
// the PC; if so the process fork()s and the child continues with a model of
// the other outcome.  The union of all leaves' PCs is the whole input space.
// At a leaf, properties are proved by asking z3 for PC ∧ ¬property (unsat =
// holds for every input that follows this path).
//
// Exit status of a harness: 0 normal (violations are reported in the log, not
// by exit status), 3 engine fault (solver unknown/error, budget exceeded).
#pragma once
#include <z3++.h>
#include <boost/multiprecision/cpp_int.hpp>
#include <semaphore.h>
#include <sys/mman.h>
#include <sys/wait.h>
#include <sys/resource.h>
#include <sys/prctl.h>
#include <unistd.h>
#include <fcntl.h>
#include <signal.h>
#include <atomic>
#include <chrono>
#include <cstdio>
#include <cstdlib>
#include <cstring>
#include <functional>
#include <limits>
#include <map>
#include <set>
#include <sstream>
#include <string>
#include <unordered_map>
#include <vector>
#ifdef SYMX_SANITIZED
#include <sanitizer/lsan_interface.h>
#endif

namespace symx {

typedef boost::multiprecision::cpp_rational Q;

inline std::string qstr(const Q &q) {
    std::ostringstream o;
    o << q;
    return o.str();
}

inline std::string jesc(const std::string &s) {
    std::string o;
    for (char ch : s) {
        if (ch == '"' || ch == '\\') { o += '\\'; o += ch; }
        else if (ch == '\n') o += "\\n";
        else if ((unsigned char) ch < 0x20) o += ' ';
        else o += ch;
    }
    return o;
}

struct Shared {
    sem_t tokens;
    std::atomic<long> paths, forks, queries, solver_us, obligations, discharged, violations, crashes, faults,
            maxdepth, cache_hits, syntactic, leaves, cex_seq, path_seq, witness_hits, infeasible, events, narrowings;
    long max_paths;
    // breadcrumbs: what a process was doing (harness-provided), readable by whoever reaps it after a crash
    enum { NCRUMB = 4096, CRUMB_LEN = 1536, CASE_LEN = 640 };
    char crumbs[NCRUMB][CRUMB_LEN];
    char crumb_case[NCRUMB][CASE_LEN];   // case line of the process owning the slot
    int crumb_pid[NCRUMB];               // its pid (so that whoever reaps an orphan can find the slot)
};

struct Engine;
inline Engine *&E() {
    static Engine *e = nullptr;
    return e;
}

enum ExitCode { EXIT_OK = 0, EXIT_FAULT = 3 };

struct Engine {
    z3::context ctx;
    z3::solver *solver = nullptr;        // incremental solver holding the PC
    std::vector<z3::expr> asserted;      // the PC as a list (fresh mode re-adds them per query)
    bool fresh_mode = false;             // true: one-shot tactic solver per query (bit-vector work)
    std::string fresh_tactic = "simplify;solve-eqs;bit-blast;sat";
    z3::model *model = nullptr;

    // real variables of linear forms
    std::vector<z3::expr> rvars;
    std::vector<std::string> rnames;
    std::vector<Q> rvals;
    std::vector<char> rpositive;
    int inf_var = -1;

    // other named variables to report in models
    std::vector<z3::expr> ovars;

    // per canonical form: which signs (bit0 neg, bit1 zero, bit2 pos) are still possible under PC
    std::unordered_map<std::string, unsigned char> signs;
    // keyed by AST id; the expr is stored too so that the AST stays alive and its id cannot be recycled
    std::unordered_map<unsigned, std::pair<z3::expr, bool>> expr_cache;

    Shared *sh = nullptr;
    int log_fd = -1;
    std::string cex_dir, cex_prefix;
    std::string case_desc;   // harness-provided description of the case (topology, algo, ...)
    std::string case_json;   // same as JSON object body (without braces)
    long path_id = 0;
    int narrow_forks = 0;
    long depth = 0;
    long pc_atoms = 0;
    bool own_token = true;
    bool witness = false;
    struct Child { pid_t first; std::string second; long path; };
    std::vector<Child> children; // concurrent children + their birth model
    std::vector<std::string> notes;       // JSON members for the leaf record
    std::vector<std::string> obl;         // obligation records
    std::vector<std::string> okn;         // names of discharged obligations
    std::vector<std::string> choices;
    bool tainted_inf = false;

    Engine() {
        solver = new z3::solver(ctx);
    }
};

[[noreturn]] inline void fault(const std::string &why);

// ---------------------------------------------------------------- logging
inline void log_line(const std::string &s) {
    Engine *e = E();
    std::string t = s + "\n";
    if (e && e->log_fd >= 0) {
        ssize_t r = write(e->log_fd, t.data(), t.size());
        (void) r;
    } else {
        fputs(t.c_str(), stdout);
        fflush(stdout);
    }
}

inline std::string model_json();

// record what this process is about to do (concrete enough to replay it) for crash reports
inline void crumb(const std::string &text) {
    Engine *e = E();
    if (!e || !e->sh) return;
    std::string t = text;
    if (t.size() >= (size_t) Shared::CRUMB_LEN) t.resize(Shared::CRUMB_LEN - 1);
    long slot = e->path_id % Shared::NCRUMB;
    char *dst = e->sh->crumbs[slot];
    memcpy(dst, t.c_str(), t.size() + 1);
    e->sh->crumb_pid[slot] = (int) getpid();
    std::string cl = e->case_desc;
    if (cl.size() >= (size_t) Shared::CASE_LEN) cl.resize(Shared::CASE_LEN - 1);
    memcpy(e->sh->crumb_case[slot], cl.c_str(), cl.size() + 1);
}

inline std::string model_json() {
    Engine *e = E();
    std::ostringstream o;
    o << "{";
    bool first = true;
    for (size_t i = 0; i < e->rvars.size(); i++) {
        if (!first) o << ",";
        first = false;
        o << "\"" << e->rnames[i] << "\":\"" << qstr(e->rvals[i]) << "\"";
    }
    if (e->model) {
        for (auto &v : e->ovars) {
            z3::expr val = e->model->eval(v, true);
            if (!first) o << ",";
            first = false;
            o << "\"" << v.decl().name().str() << "\":\"" << jesc(val.to_string()) << "\"";
        }
    }
    o << "}";
    return o.str();
}

inline std::string z3model_json(z3::model &m) {
    Engine *e = E();
    std::ostringstream o;
    o << "{";
    bool first = true;
    for (size_t i = 0; i < e->rvars.size(); i++) {
        z3::expr val = m.eval(e->rvars[i], true);
        if (!first) o << ",";
        first = false;
        o << "\"" << e->rnames[i] << "\":\"" << jesc(val.to_string()) << "\"";
    }
    for (auto &v : e->ovars) {
        z3::expr val = m.eval(v, true);
        if (!first) o << ",";
        first = false;
        o << "\"" << v.decl().name().str() << "\":\"" << jesc(val.to_string()) << "\"";
    }
    o << "}";
    return o.str();
}

[[noreturn]] inline void fault(const std::string &why) {
    Engine *e = E();
    if (e && e->sh) e->sh->faults++;
    log_line(std::string("{\"type\":\"fault\",\"why\":\"") + jesc(why) + "\",\"case\":\"" +
             jesc(e ? e->case_desc : "") + "\"}");
    if (e && e->sh && e->own_token) sem_post(&e->sh->tokens);
    _exit(EXIT_FAULT);
}

// ---------------------------------------------------------------- solver plumbing
inline Q q_of_numeral(const z3::expr &v) {
    // v is a rational numeral
    std::string s = Z3_get_numeral_string(v.ctx(), v);
    return Q(s);
}

inline void adopt_model(const z3::model &m) {
    Engine *e = E();
    delete e->model;
    e->model = new z3::model(m);
    for (size_t i = 0; i < e->rvars.size(); i++) {
        z3::expr val = e->model->eval(e->rvars[i], true);
        if (!val.is_numeral()) fault("model value of " + e->rnames[i] + " is not a numeral: " + val.to_string());
        e->rvals[i] = q_of_numeral(val);
    }
    crumb(" ## " + model_json());   // a crash from here on can be attributed to this concrete input (harnesses may refine it)
}

// check PC ∧ extra.  Returns sat/unsat; unknown is an engine fault. On sat, *out receives the model.
inline bool check_with(const z3::expr *extra, z3::model **out) {
    Engine *e = E();
    auto t0 = std::chrono::steady_clock::now();
    z3::check_result r;
    bool sat = false;
    try {
        if (!e->fresh_mode) {
            if (extra) {
                e->solver->push();
                e->solver->add(*extra);
            }
            r = e->solver->check();
            if (r == z3::sat && out) *out = new z3::model(e->solver->get_model());
            if (extra) e->solver->pop();
        } else {
            z3::tactic t = z3::tactic(e->ctx, "simplify") & z3::tactic(e->ctx, "solve-eqs") &
                           z3::tactic(e->ctx, "bit-blast") & z3::tactic(e->ctx, "sat");
            z3::solver s = t.mk_solver();
            for (auto &a : e->asserted) s.add(a);
            if (extra) s.add(*extra);
            r = s.check();
            if (r == z3::sat && out) *out = new z3::model(s.get_model());
        }
    } catch (z3::exception &ex) {
        fault(std::string("z3 exception: ") + ex.msg());
    }
    auto t1 = std::chrono::steady_clock::now();
    e->sh->queries++;
    e->sh->solver_us += std::chrono::duration_cast<std::chrono::microseconds>(t1 - t0).count();
    if (r == z3::unknown) fault("solver returned unknown");
    sat = (r == z3::sat);
    return sat;
}

inline void assert_pc(const z3::expr &a) {
    Engine *e = E();
    e->asserted.push_back(a);
    if (!e->fresh_mode) e->solver->add(a);
    e->pc_atoms++;
}

// re-solve the PC to obtain a model (after assumptions were added)
inline void resolve_model() {
    z3::model *m = nullptr;
    if (!check_with(nullptr, &m)) {
        E()->sh->infeasible++;
        log_line("{\"type\":\"infeasible\",\"case\":\"" + jesc(E()->case_desc) + "\"}");
        _exit(EXIT_OK);
    }
    adopt_model(*m);
    delete m;
}

inline void assume(const z3::expr &a) {
    assert_pc(a);
}

// ---------------------------------------------------------------- process tree
inline void reap_child(pid_t pid, const std::string &birth_model, bool concurrent, long child_path = -1) {
    Engine *e = E();
    int st = 0;
    while (waitpid(pid, &st, 0) < 0 && errno == EINTR) {
    }
    if (WIFSIGNALED(st) || (WIFEXITED(st) && WEXITSTATUS(st) != EXIT_OK && WEXITSTATUS(st) != EXIT_FAULT)) {
        e->sh->crashes++;
        if (concurrent) sem_post(&e->sh->tokens); // the dead child cannot give its token back
        std::ostringstream o;
        o << "{\"type\":\"crash\",\"case\":\"" << jesc(e->case_desc) << "\"," << e->case_json
          << (e->case_json.empty() ? "" : ",") << "\"signal\":" << (WIFSIGNALED(st) ? WTERMSIG(st) : 0)
          << ",\"exit\":" << (WIFEXITED(st) ? WEXITSTATUS(st) : -1) << ",\"model\":" << birth_model;
        if (child_path >= 0) {
            char *cb = e->sh->crumbs[child_path % Shared::NCRUMB];
            cb[Shared::CRUMB_LEN - 1] = 0;
            o << ",\"crumb\":\"" << jesc(cb) << "\"";
        }
        o << "}";
        log_line(o.str());
    }
}

// fork the "other" outcome.  Returns true in the child.
inline bool spawn(const z3::model &child_model) {
    Engine *e = E();
    if (e->sh->max_paths > 0 && e->sh->path_seq.load() > e->sh->max_paths) fault("path budget exceeded");
    std::string birth = "";
    {
        // render the child's model for crash reports
        z3::model cm(child_model);
        birth = z3model_json(cm);
    }
    bool concurrent = (sem_trywait(&e->sh->tokens) == 0);
    long child_path = ++e->sh->path_seq;
    fflush(stdout);
    fflush(stderr);
    pid_t pid = fork();
    if (pid < 0) fault("fork failed");
    if (pid == 0) {
        e->own_token = concurrent;
        e->children.clear();
        e->path_id = child_path;
        e->sh->crumbs[child_path % Shared::NCRUMB][0] = 0;
        e->depth++;
        long d = e->depth, md = e->sh->maxdepth.load();
        while (d > md && !e->sh->maxdepth.compare_exchange_weak(md, d)) {
        }
        e->sh->forks++;
        return true;
    }
    if (concurrent) {
        e->children.push_back(Engine::Child{pid, birth, child_path});
    } else {
        reap_child(pid, birth, false, child_path);
    }
    return false;
}

// ---------------------------------------------------------------- deciding generic z3 conditions
inline bool model_truth(const z3::expr &c) {
    Engine *e = E();
    z3::expr v = e->model->eval(c, true);
    if (v.is_true()) return true;
    if (v.is_false()) return false;
    v = v.simplify();
    if (v.is_true()) return true;
    if (v.is_false()) return false;
    fault("cannot evaluate condition under model: " + c.to_string());
}

inline bool decide_expr(const z3::expr &c0) {
    Engine *e = E();
    z3::expr c = c0.simplify();
    if (c.is_true()) return true;
    if (c.is_false()) return false;
    auto it = e->expr_cache.find(c.id());
    if (it != e->expr_cache.end()) {
        e->sh->cache_hits++;
        return it->second.second;
    }
    bool t = model_truth(c);
    z3::expr other = t ? !c : c;
    z3::model *m = nullptr;
    if (check_with(&other, &m)) {
        bool child = spawn(*m);
        if (child) {
            assert_pc(other);
            adopt_model(*m);
            delete m;
            e->expr_cache.insert(std::make_pair(c.id(), std::make_pair(c, !t)));
            return !t;
        }
        delete m;
        assert_pc(t ? c : !c);
    }
    e->expr_cache.insert(std::make_pair(c.id(), std::make_pair(c, t)));
    return t;
}

// symbolic choice among n alternatives (schedules, layouts): an integer variable in the PC
inline int choose(int n, const std::string &label) {
    Engine *e = E();
    if (n <= 1) return 0;
    static int seq = 0;
    std::string name = "ch_" + label + "_" + std::to_string(seq++);
    // bit-vector sort in fresh (bit-blasting) mode, integer sort otherwise
    z3::expr c = e->fresh_mode ? e->ctx.bv_const(name.c_str(), 16) : e->ctx.int_const(name.c_str());
    e->ovars.push_back(c);
    if (e->fresh_mode) assert_pc(z3::ult(c, e->ctx.bv_val(n, 16)));
    else assert_pc(c >= 0 && c < n);
    int r = n - 1;
    for (int v = 0; v < n - 1; v++) {
        if (decide_expr(e->fresh_mode ? (c == e->ctx.bv_val(v, 16)) : (c == v))) {
            r = v;
            break;
        }
    }
    e->choices.push_back("\"" + label + "\":" + std::to_string(r));
    return r;
}

// ---------------------------------------------------------------- linear forms
struct Lin {
    std::vector<std::pair<int, Q>> t; // sorted by variable id, non-zero coefficients
    Q k = 0;

    bool is_const() const { return t.empty(); }

    static Lin var(int id) {
        Lin l;
        l.t.emplace_back(id, Q(1));
        return l;
    }
    static Lin constant(const Q &q) {
        Lin l;
        l.k = q;
        return l;
    }
    Lin scaled(const Q &s) const {
        Lin r;
        if (s == 0) return r;
        r.k = k * s;
        r.t.reserve(t.size());
        for (auto &p : t) r.t.emplace_back(p.first, p.second * s);
        return r;
    }
    Lin plus(const Lin &o, int sign = 1) const {
        Lin r;
        r.k = sign > 0 ? Q(k + o.k) : Q(k - o.k);
        size_t i = 0, j = 0;
        r.t.reserve(t.size() + o.t.size());
        while (i < t.size() || j < o.t.size()) {
            if (j == o.t.size() || (i < t.size() && t[i].first < o.t[j].first)) {
                r.t.push_back(t[i++]);
            } else if (i == t.size() || o.t[j].first < t[i].first) {
                r.t.emplace_back(o.t[j].first, sign > 0 ? o.t[j].second : Q(-o.t[j].second));
                j++;
            } else {
                Q c = sign > 0 ? Q(t[i].second + o.t[j].second) : Q(t[i].second - o.t[j].second);
                if (c != 0) r.t.emplace_back(t[i].first, c);
                i++;
                j++;
            }
        }
        return r;
    }
    Q eval() const {
        Engine *e = E();
        Q v = k;
        for (auto &p : t) v += p.second * e->rvals[p.first];
        return v;
    }
    bool mentions(int var) const {
        for (auto &p : t)
            if (p.first == var) return true;
        return false;
    }
    z3::expr expr() const {
        Engine *e = E();
        z3::expr r = e->ctx.real_val(qstr(k).c_str());
        bool have = (k != 0);
        for (auto &p : t) {
            z3::expr term = (p.second == 1) ? e->rvars[p.first]
                                            : e->ctx.real_val(qstr(p.second).c_str()) * e->rvars[p.first];
            if (!have) {
                r = term;
                have = true;
            } else
                r = r + term;
        }
        return r;
    }
    std::string key() const {
        std::ostringstream o;
        for (auto &p : t) o << p.first << ":" << p.second << ",";
        o << "|" << k;
        return o.str();
    }
};

inline int new_real_var(const std::string &name, bool positive) {
    Engine *e = E();
    int id = (int) e->rvars.size();
    e->rvars.push_back(e->ctx.real_const(name.c_str()));
    e->rnames.push_back(name);
    e->rvals.push_back(Q(0));
    e->rpositive.push_back(positive ? 1 : 0);
    if (positive) assert_pc(e->rvars[id] > 0);
    return id;
}

enum { S_NEG = 1, S_ZERO = 2, S_POS = 4 };

// decide the sign class of linear form f: returns truth of "sign(f) ∈ truemask"
inline bool decide_sign(const Lin &f0, unsigned truemask) {
    Engine *e = E();
    if (f0.is_const()) {
        unsigned s = f0.k < 0 ? S_NEG : (f0.k == 0 ? S_ZERO : S_POS);
        return (s & truemask) != 0;
    }
    // canonical: divide by |lead|, make lead +1 (flip mask when lead negative)
    Q lead = f0.t[0].second;
    bool flip = lead < 0;
    Lin f = f0.scaled(Q(1) / lead);
    // scaled by 1/lead: if lead negative the sign flips
    if (flip) {
        unsigned m = 0;
        if (truemask & S_NEG) m |= S_POS;
        if (truemask & S_POS) m |= S_NEG;
        if (truemask & S_ZERO) m |= S_ZERO;
        truemask = m;
    }
    // syntactic sign-definiteness under positivity of the variables
    {
        bool allpos = (f.k >= 0), allneg = (f.k <= 0);
        for (auto &p : f.t) {
            if (!e->rpositive[p.first]) { allpos = allneg = false; break; }
            if (p.second < 0) allpos = false;
            if (p.second > 0) allneg = false;
        }
        if (allpos) { e->sh->syntactic++; return (truemask & S_POS) != 0; }
        if (allneg) { e->sh->syntactic++; return (truemask & S_NEG) != 0; }
    }
    std::string key = f.key();
    unsigned char possible = 7;
    auto it = e->signs.find(key);
    if (it != e->signs.end()) possible = it->second;
    if ((possible & ~truemask) == 0) { e->sh->cache_hits++; return true; }
    if ((possible & truemask) == 0) { e->sh->cache_hits++; return false; }
    Q v = f.eval();
    unsigned s = v < 0 ? S_NEG : (v == 0 ? S_ZERO : S_POS);
    if (!(s & possible)) fault("model inconsistent with sign knowledge");
    bool t = (s & truemask) != 0;
    unsigned mine = possible & (t ? truemask : ~truemask);
    unsigned other = possible & (t ? ~truemask : truemask) & 7;
    z3::expr fe = f.expr();
    auto mask_expr = [&](unsigned m) -> z3::expr {
        z3::expr zero = e->ctx.real_val(0);
        switch (m & 7) {
        case S_NEG: return fe < zero;
        case S_ZERO: return fe == zero;
        case S_POS: return fe > zero;
        case S_NEG | S_ZERO: return fe <= zero;
        case S_POS | S_ZERO: return fe >= zero;
        case S_NEG | S_POS: return fe != zero;
        default: return e->ctx.bool_val((m & 7) == 7);
        }
    };
    z3::expr oe = mask_expr(other);
    z3::model *m = nullptr;
    if (check_with(&oe, &m)) {
        bool child = spawn(*m);
        if (child) {
            assert_pc(oe);
            adopt_model(*m);
            delete m;
            e->signs[key] = (unsigned char) other;
            return !t;
        }
        delete m;
        assert_pc(mask_expr(mine));
    }
    e->signs[key] = (unsigned char) mine;
    return t;
}

// ---------------------------------------------------------------- Real: exact-arithmetic weight type
class Real {
public:
    Lin f;
    Real() {}
    Real(double d) {
        if (d != std::floor(d) || std::fabs(d) > 1e15) fault("Real constructed from non-integral double");
        f.k = Q((long long) d);
    }
    Real(int i) { f.k = Q(i); }
    Real(long i) { f.k = Q(i); }
    Real(unsigned long i) { f.k = Q(i); }
    explicit Real(const Lin &l) : f(l) {}
    static Real variable(const std::string &name, bool positive = true) {
        return Real(Lin::var(new_real_var(name, positive)));
    }
    static Real inf() {
        Engine *e = E();
        if (e->inf_var < 0) fault("INF used before it was declared");
        return Real(Lin::var(e->inf_var));
    }
    static void note_inf(const Real &a) {
        Engine *e = E();
        if (e->inf_var >= 0 && a.f.mentions(e->inf_var)) {
            if (!e->tainted_inf) e->sh->events++;
            e->tainted_inf = true;
        }
    }
    Real &operator+=(const Real &o) {
        note_inf(*this);
        note_inf(o);
        f = f.plus(o.f);
        return *this;
    }
    Real &operator-=(const Real &o) {
        note_inf(*this);
        note_inf(o);
        f = f.plus(o.f, -1);
        return *this;
    }
    friend Real operator+(const Real &a, const Real &b) {
        Real r(a);
        r += b;
        return r;
    }
    friend Real operator-(const Real &a, const Real &b) {
        Real r(a);
        r -= b;
        return r;
    }
    Real operator-() const { return Real(f.scaled(Q(-1))); }
    // multiplication by a constant only
    friend Real operator*(const Real &a, const Real &b) {
        if (a.f.is_const()) return Real(b.f.scaled(a.f.k));
        if (b.f.is_const()) return Real(a.f.scaled(b.f.k));
        fault("non-linear multiplication of symbolic reals");
    }
    friend bool operator<(const Real &a, const Real &b) { return decide_sign(a.f.plus(b.f, -1), S_NEG); }
    friend bool operator>(const Real &a, const Real &b) { return decide_sign(a.f.plus(b.f, -1), S_POS); }
    friend bool operator<=(const Real &a, const Real &b) { return decide_sign(a.f.plus(b.f, -1), S_NEG | S_ZERO); }
    friend bool operator>=(const Real &a, const Real &b) { return decide_sign(a.f.plus(b.f, -1), S_POS | S_ZERO); }
    friend bool operator==(const Real &a, const Real &b) { return decide_sign(a.f.plus(b.f, -1), S_ZERO); }
    friend bool operator!=(const Real &a, const Real &b) { return decide_sign(a.f.plus(b.f, -1), S_NEG | S_POS); }
    z3::expr expr() const { return f.expr(); }
    Q value() const { return f.eval(); }
    friend std::ostream &operator<<(std::ostream &o, const Real &r) { return o << r.f.key(); }

    // ---- narrowing to an integral type (C++ truncation towards zero).  The pinned library never does this; the
    // conversion exists so that a tree which stores a weight in an integer still instantiates, and its effect is
    // explored instead of ending in a build failure.  The truncated value is fixed under the current model, the PC
    // receives "trunc(f) == k", and the complement is forked (at most NARROW_FORKS times per path; beyond that the
    // path is concretised on this value, counted in `narrowings`).  Leaf obligations are still decided over all
    // weights satisfying the PC, so a lost fractional part is found on the first such path.
    enum { NARROW_FORKS = 2 };
    long narrow() const {
        Engine *e = E();
        auto trunc_q = [](const Q &v) -> boost::multiprecision::cpp_int {
            return boost::multiprecision::numerator(v) / boost::multiprecision::denominator(v);
        };
        if (f.is_const()) return (long) trunc_q(f.k);
        note_inf(*this);
        for (;;) {
            Q v = f.eval();
            boost::multiprecision::cpp_int k = trunc_q(v);
            z3::expr fe = f.expr();
            z3::expr kk = e->ctx.real_val(k.str().c_str());
            z3::expr one = e->ctx.real_val(1);
            z3::expr mine = (k > 0) ? (fe >= kk && fe < kk + one)
                          : (k < 0) ? (fe > kk - one && fe <= kk)
                                    : (fe > kk - one && fe < kk + one);
            if (e->narrow_forks < NARROW_FORKS) {
                z3::expr other = !mine;
                z3::model *m = nullptr;
                if (check_with(&other, &m)) {
                    e->narrow_forks++;
                    bool child = spawn(*m);
                    if (child) {
                        assert_pc(other);
                        adopt_model(*m);
                        delete m;
                        continue;
                    }
                    delete m;
                }
            }
            assert_pc(mine);
            e->sh->narrowings++;
            return (long) k;
        }
    }
    template<class T, typename std::enable_if<std::is_integral<T>::value, int>::type = 0>
    operator T() const { return (T) narrow(); }

    // mixed arithmetic/comparison with built-in numbers: exact matches, so that the implicit conversion above never makes
    // `Real op int` ambiguous with the built-in operator
#define SYMX_MIX_A(OP)                                                                                              \
    template<class T, typename std::enable_if<std::is_arithmetic<T>::value, int>::type = 0>                        \
    friend Real operator OP(const Real &a, T b) { return a OP of_num(b); }                                          \
    template<class T, typename std::enable_if<std::is_arithmetic<T>::value, int>::type = 0>                        \
    friend Real operator OP(T a, const Real &b) { return of_num(a) OP b; }
#define SYMX_MIX_C(OP)                                                                                              \
    template<class T, typename std::enable_if<std::is_arithmetic<T>::value, int>::type = 0>                        \
    friend bool operator OP(const Real &a, T b) { return a OP of_num(b); }                                          \
    template<class T, typename std::enable_if<std::is_arithmetic<T>::value, int>::type = 0>                        \
    friend bool operator OP(T a, const Real &b) { return of_num(a) OP b; }
    SYMX_MIX_A(+) SYMX_MIX_A(-) SYMX_MIX_A(*)
    SYMX_MIX_C(<) SYMX_MIX_C(>) SYMX_MIX_C(<=) SYMX_MIX_C(>=) SYMX_MIX_C(==) SYMX_MIX_C(!=)
#undef SYMX_MIX_A
#undef SYMX_MIX_C
    template<class T> static Real of_num(T v) {
        if (std::is_floating_point<T>::value) return Real((double) v);
        return Real((long) v);
    }
};

template<class V>
inline void declare_inf(const std::vector<V> &weights) {
    Engine *e = E();
    e->inf_var = new_real_var("INF", true);
    Lin sum;
    for (auto &w : weights) sum = sum.plus(w.f);
    // INF exceeds anything the library can add up (every edge twice, twice over)
    assert_pc(Lin::var(e->inf_var).expr() > sum.scaled(Q(4)).expr() + e->ctx.real_val(1));
}

// ---------------------------------------------------------------- obligations
inline std::string write_cex(const std::string &obligation, const std::string &model, const std::string &detail) {
    Engine *e = E();
    long n = ++e->sh->cex_seq;
    if (e->cex_dir.empty()) return "";
    std::string path = e->cex_dir + "/" + e->cex_prefix + "-" + std::to_string(n) + ".json";
    std::ostringstream o;
    o << "{\"case\":\"" << jesc(e->case_desc) << "\"," << e->case_json << (e->case_json.empty() ? "" : ",")
      << "\"obligation\":\"" << jesc(obligation) << "\",\"model\":" << model << ",\"choices\":{";
    for (size_t i = 0; i < e->choices.size(); i++) o << (i ? "," : "") << e->choices[i];
    o << "},\"detail\":\"" << jesc(detail) << "\"}\n";
    FILE *f = fopen(path.c_str(), "w");
    if (f) {
        fputs(o.str().c_str(), f);
        fclose(f);
    }
    return path;
}

// prove `property` for every input following this path: PC ∧ ¬property must be unsat
inline bool prove(const z3::expr &property, const std::string &name, const std::string &detail = "") {
    Engine *e = E();
    e->sh->obligations++;
    z3::expr neg = !property;
    z3::model *m = nullptr;
    bool sat = check_with(&neg, &m);
    if (!sat) {
        e->sh->discharged++;
        e->obl.push_back("{\"name\":\"" + jesc(name) + "\",\"verdict\":\"unsat\"}");
        e->okn.push_back(name);
        return true;
    }
    std::string mj = z3model_json(*m);
    delete m;
    e->sh->violations++;
    std::string path = write_cex(name, mj, detail);
    e->obl.push_back("{\"name\":\"" + jesc(name) + "\",\"verdict\":\"VIOLATED\",\"cex\":\"" + jesc(path) +
                     "\",\"model\":" + mj + "}");
    return false;
}

// a check that is concrete on this leaf (cycles are concrete edge lists here)
inline bool require(bool cond, const std::string &name, const std::string &detail = "") {
    Engine *e = E();
    e->sh->obligations++;
    if (cond) {
        e->sh->discharged++;
        e->obl.push_back("{\"name\":\"" + jesc(name) + "\",\"verdict\":\"holds\"}");
        e->okn.push_back(name);
        return true;
    }
    e->sh->violations++;
    std::string mj = model_json();
    std::string path = write_cex(name, mj, detail);
    e->obl.push_back("{\"name\":\"" + jesc(name) + "\",\"verdict\":\"VIOLATED\",\"cex\":\"" + jesc(path) +
                     "\",\"model\":" + mj + ",\"detail\":\"" + jesc(detail) + "\"}");
    return false;
}

inline void note(const std::string &key, const std::string &json_value) {
    E()->notes.push_back("\"" + key + "\":" + json_value);
}

// end of a path: write the leaf record, wait for children, exit
[[noreturn]] inline void leaf_end() {
    Engine *e = E();
    if (e->witness) {
        z3::expr f = e->ctx.bool_val(false);
        z3::expr neg = !f;
        z3::model *m = nullptr;
        if (check_with(&neg, &m)) {
            e->sh->witness_hits++;
            delete m;
        }
    }
#ifdef SYMX_SANITIZED
    // the library objects of this path are gone; anything LeakSanitizer finds now was allocated and never released
    if (getenv("SYMX_LSAN")) require(__lsan_do_recoverable_leak_check() == 0, "C07:no-memory-leak(LeakSanitizer at end of path)");
#endif
    e->sh->leaves++;
    std::ostringstream o;
    o << "{\"type\":\"leaf\",\"path\":" << e->path_id << ",\"depth\":" << e->depth << ",\"pc\":" << e->pc_atoms
      << ",\"case\":\"" << jesc(e->case_desc) << "\"";
    if (!e->case_json.empty()) o << "," << e->case_json;
    o << ",\"model\":" << model_json();
    if (e->tainted_inf) o << ",\"inf_arith\":true";
    if (!e->choices.empty()) {
        o << ",\"choices\":{";
        for (size_t i = 0; i < e->choices.size(); i++) o << (i ? "," : "") << e->choices[i];
        o << "}";
    }
    for (auto &n : e->notes) o << "," << n;
    {
        // discharged obligations by name (compact), violated ones in full
        o << ",\"nobl\":" << e->obl.size() << ",\"ok\":\"";
        for (auto &s : e->okn) o << jesc(s) << "|";
        o << "\",\"obl\":[";
        bool first = true;
        for (auto &s : e->obl) if (s.find("VIOLATED") != std::string::npos) { o << (first ? "" : ",") << s; first = false; }
        o << "]}";
    }
    log_line(o.str());
    fflush(stdout);
    fflush(stderr);
    if (e->own_token) sem_post(&e->sh->tokens);
    for (auto &c : e->children) reap_child(c.first, c.second, true, c.path);
    _exit(EXIT_OK);
}

// ---------------------------------------------------------------- driver side: run a list of cases
struct Options {
    std::string cases_file, log_file, cex_dir, cex_prefix = "cex";
    int jobs = 16;
    long max_paths = 0;
    bool witness = false;
};

inline Options parse_args(int argc, char **argv) {
    Options o;
    for (int i = 1; i < argc; i++) {
        std::string a = argv[i];
        auto next = [&]() -> std::string {
            if (i + 1 >= argc) { fprintf(stderr, "missing value for %s\n", a.c_str()); exit(2); }
            return argv[++i];
        };
        if (a == "--cases") o.cases_file = next();
        else if (a == "--log") o.log_file = next();
        else if (a == "--cexdir") o.cex_dir = next();
        else if (a == "--cexprefix") o.cex_prefix = next();
        else if (a == "--jobs") o.jobs = atoi(next().c_str());
        else if (a == "--max-paths") o.max_paths = atol(next().c_str());
        else if (a == "--witness") o.witness = true;
        else { fprintf(stderr, "unknown option %s\n", a.c_str()); exit(2); }
    }
    return o;
}

typedef std::map<std::string, std::string> Case;

inline Case parse_case(const std::string &line) {
    Case c;
    std::istringstream is(line);
    std::string tok;
    while (is >> tok) {
        auto p = tok.find('=');
        if (p == std::string::npos) c[tok] = "1";
        else c[tok.substr(0, p)] = tok.substr(p + 1);
    }
    return c;
}

// Runs body(case) for each line of the cases file, each in its own forked process tree.
// The root never explores itself; it only forks case roots and reaps them.
inline int run_cases(const Options &opt, const std::function<void(const Case &, const std::string &)> &body) {
    Shared *sh = (Shared *) mmap(nullptr, sizeof(Shared), PROT_READ | PROT_WRITE, MAP_SHARED | MAP_ANONYMOUS, -1, 0);
    if (sh == MAP_FAILED) { perror("mmap"); return 2; }
    memset((void *) sh, 0, sizeof(Shared));
    sem_init(&sh->tokens, 1, opt.jobs > 0 ? opt.jobs : 1);
    sh->max_paths = opt.max_paths;
    int log_fd = -1;
    if (!opt.log_file.empty()) {
        log_fd = open(opt.log_file.c_str(), O_WRONLY | O_CREAT | O_APPEND | O_TRUNC, 0644);
        if (log_fd < 0) { perror("open log"); return 2; }
    }
    std::vector<std::string> lines;
    {
        FILE *f = fopen(opt.cases_file.c_str(), "r");
        if (!f) { perror("open cases"); return 2; }
        char buf[1 << 16];
        while (fgets(buf, sizeof buf, f)) {
            std::string s(buf);
            while (!s.empty() && (s.back() == '\n' || s.back() == '\r')) s.pop_back();
            if (!s.empty() && s[0] != '#') lines.push_back(s);
        }
        fclose(f);
    }
    auto t0 = std::chrono::steady_clock::now();
    prctl(PR_SET_CHILD_SUBREAPER, 1); // orphans of crashed processes are re-parented to us and waited for
    int faulted = 0;
    struct Root { std::string line; long path; };
    std::map<pid_t, Root> live;
    auto put = [&](const std::string &s) {
        if (log_fd >= 0) { ssize_t r = write(log_fd, s.data(), s.size()); (void) r; }
        else fputs(s.c_str(), stdout);
    };
    // any child of ours that terminated: a case root, or an orphan of a crashed process
    auto handle_exit = [&](pid_t pid, int st) {
        bool abnormal = WIFSIGNALED(st) || (WIFEXITED(st) && WEXITSTATUS(st) != EXIT_OK && WEXITSTATUS(st) != EXIT_FAULT);
        bool fault = WIFEXITED(st) && WEXITSTATUS(st) == EXIT_FAULT;
        auto it = live.find(pid);
        if (fault) faulted++;
        if (abnormal) {
            sh->crashes++;
            std::string cr;
            std::string line = "(orphan)";
            long slot = -1;
            if (it != live.end()) { slot = it->second.path % Shared::NCRUMB; line = it->second.line; }
            else for (long k = 0; k < Shared::NCRUMB; k++) if (sh->crumb_pid[k] == (int) pid) { slot = k; break; }
            if (slot >= 0) {
                char *cb = sh->crumbs[slot];
                cb[Shared::CRUMB_LEN - 1] = 0;
                cr = jesc(cb);
                if (it == live.end()) { sh->crumb_case[slot][Shared::CASE_LEN - 1] = 0; line = sh->crumb_case[slot]; }
            }
            put("{\"type\":\"crash\",\"case\":\"" + jesc(line) + "\",\"signal\":" + std::to_string(WIFSIGNALED(st) ? WTERMSIG(st) : 0) +
                ",\"exit\":" + std::to_string(WIFEXITED(st) ? WEXITSTATUS(st) : -1) + ",\"model\":{},\"root\":true,\"crumb\":\"" + cr + "\"}\n");
            // a process that died abnormally never gave its token back: return one on its behalf (otherwise the pool drains)
            sem_post(&sh->tokens);
        }
        if (it != live.end()) live.erase(it);
    };
    for (auto &line : lines) {
        while (sem_trywait(&sh->tokens) != 0) {
            int st;
            pid_t r = waitpid(-1, &st, WNOHANG);
            if (r > 0) handle_exit(r, st);
            else usleep(2000);
        }
        fflush(stdout);
        long root_path = ++sh->path_seq;
        sh->crumbs[root_path % Shared::NCRUMB][0] = 0;
        pid_t pid = fork();
        if (pid < 0) { perror("fork"); return 2; }
        if (pid == 0) {
            Engine *e = new Engine();
            E() = e;
            e->sh = sh;
            e->log_fd = log_fd;
            e->cex_dir = opt.cex_dir;
            e->cex_prefix = opt.cex_prefix;
            e->witness = opt.witness;
            e->own_token = true;
            e->path_id = root_path;
            e->case_desc = line;
            sh->paths++;
            Case c = parse_case(line);
            resolve_model(); // empty PC: start with the trivial model
            body(c, line);
            leaf_end();
        }
        live[pid] = Root{line, root_path};
    }
    while (true) {
        int st;
        pid_t r = wait(&st);
        if (r < 0) { if (errno == EINTR) continue; break; }
        handle_exit(r, st);
    }
    auto t1 = std::chrono::steady_clock::now();
    double wall = std::chrono::duration<double>(t1 - t0).count();
    std::ostringstream o;
    o << "{\"type\":\"summary\",\"cases\":" << lines.size() << ",\"leaves\":" << sh->leaves.load()
      << ",\"forks\":" << sh->forks.load() << ",\"queries\":" << sh->queries.load()
      << ",\"solver_s\":" << sh->solver_us.load() / 1e6 << ",\"obligations\":" << sh->obligations.load()
      << ",\"discharged\":" << sh->discharged.load() << ",\"violations\":" << sh->violations.load()
      << ",\"crashes\":" << sh->crashes.load() << ",\"faults\":" << sh->faults.load()
      << ",\"maxdepth\":" << sh->maxdepth.load() << ",\"cache_hits\":" << sh->cache_hits.load()
      << ",\"syntactic\":" << sh->syntactic.load() << ",\"witness_hits\":" << sh->witness_hits.load()
      << ",\"infeasible\":" << sh->infeasible.load() << ",\"inf_events\":" << sh->events.load()
      << ",\"narrowings\":" << sh->narrowings.load()
      << ",\"wall_s\":" << wall << "}\n";
    std::string s = o.str();
    if (log_fd >= 0) { ssize_t r = write(log_fd, s.data(), s.size()); (void) r; }
    fputs(s.c_str(), stdout);
    fflush(stdout);
    return (sh->faults.load() > 0 || faulted > 0) ? EXIT_FAULT : 0;
}

} // namespace symx

namespace std {
template<> class numeric_limits<symx::Real> {
public:
    static constexpr bool is_specialized = true;
    static symx::Real max() { return symx::Real::inf(); }
    static symx::Real min() { return symx::Real(0); }
    static symx::Real lowest() { return -symx::Real::inf(); }
    static symx::Real infinity() { return symx::Real::inf(); }
    static constexpr bool has_infinity = false;
    static constexpr bool is_integer = false;
    static constexpr bool is_signed = true;
    static constexpr bool is_exact = true;
};
}
