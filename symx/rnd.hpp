// symx::Rnd — abstract rounding model of IEEE-754 binary64 addition in linear real arithmetic (C09).
// A value is a linear form over the weight variables and rounding-error variables.  x + y  becomes  x + y + eps with a
// fresh eps, |eps| <= 2^-53 * (x + y)  (operands are positive, so the bound is linear) — a sound over-approximation of
// round-to-nearest.  Adding an exact zero and adding two concrete values are exact (the latter uses the machine's own
// addition).  Comparisons are on the rounded values.
#pragma once
#include "symx.hpp"
#include <cmath>

namespace symx {

inline Q q_of_double(double d) {
    // exact dyadic rational of a finite double
    int exp;
    double m = std::frexp(d, &exp);           // d = m * 2^exp, 0.5 <= |m| < 1
    long long mant = (long long) std::ldexp(m, 53);
    Q q(mant);
    int e2 = exp - 53;
    Q two(2);
    if (e2 >= 0) for (int i = 0; i < e2; i++) q *= two;
    else for (int i = 0; i < -e2; i++) q /= two;
    return q;
}

inline double double_of_q(const Q &q) { return q.convert_to<double>(); }

struct RndStats {
    static long &eps_count() { static long n = 0; return n; }
};

class Rnd {
public:
    Lin f;
    bool concrete = true;  // no variables at all: value is exactly the double dval
    double dval = 0.0;
    Rnd() {}
    Rnd(double d) : concrete(true), dval(d) { f.k = q_of_double(d); }
    Rnd(int i) : concrete(true), dval((double) i) { f.k = Q(i); }
    Rnd(long i) : concrete(true), dval((double) i) { f.k = Q(i); }
    explicit Rnd(const Lin &l) : f(l), concrete(false) {}
    static Rnd variable(const std::string &name, bool positive = true) {
        int id = new_real_var(name, positive);
        Rnd r(Lin::var(id));
        // moderate dynamic range: 1e-3 <= w <= 1e3
        Engine *e = E();
        assert_pc(e->rvars[id] >= e->ctx.real_val("1/1000") && e->rvars[id] <= e->ctx.real_val("1000"));
        return r;
    }
    static Rnd inf() {
        Engine *e = E();
        if (e->inf_var < 0) fault("INF used before it was declared");
        return Rnd(Lin::var(e->inf_var));
    }
    bool is_zero() const { return f.is_const() && f.k == 0; }
    Rnd &operator+=(const Rnd &o) { *this = *this + o; return *this; }
    friend Rnd operator+(const Rnd &a, const Rnd &b) {
        Engine *e = E();
        if (a.is_zero()) return b;
        if (b.is_zero()) return a;
        if (e->inf_var >= 0 && (a.f.mentions(e->inf_var) || b.f.mentions(e->inf_var))) { e->tainted_inf = true; }
        if (a.concrete && b.concrete) return Rnd(a.dval + b.dval);
        Lin s = a.f.plus(b.f);
        // floating-point addition is a deterministic, commutative function of its operands: the same two operands always get
        // the same rounding error variable
        static std::map<std::string, int> memo;
        std::string ka = a.f.key(), kb = b.f.key();
        std::string key = ka < kb ? ka + "#" + kb : kb + "#" + ka;
        auto it = memo.find(key);
        if (it != memo.end()) return Rnd(s.plus(Lin::var(it->second)));
        int id = new_real_var("eps" + std::to_string(RndStats::eps_count()++), false);
        memo[key] = id;
        // |eps| * 2^53 <= s   (s > 0 because all operands are positive)
        z3::expr ev = e->rvars[id];
        z3::expr bound = s.expr() / e->ctx.real_val("9007199254740992");
        assert_pc(ev <= bound && ev >= -bound);
        // the model is extended with eps = 0, which satisfies the new constraints
        return Rnd(s.plus(Lin::var(id)));
    }
    friend Rnd operator*(const Rnd &a, const Rnd &b) {
        if (a.concrete && b.concrete) return Rnd(a.dval * b.dval);
        fault("Rnd multiplication is not modelled");
    }
    friend bool operator<(const Rnd &a, const Rnd &b) { return decide_sign(a.f.plus(b.f, -1), S_NEG); }
    friend bool operator>(const Rnd &a, const Rnd &b) { return decide_sign(a.f.plus(b.f, -1), S_POS); }
    friend bool operator<=(const Rnd &a, const Rnd &b) { return decide_sign(a.f.plus(b.f, -1), S_NEG | S_ZERO); }
    friend bool operator>=(const Rnd &a, const Rnd &b) { return decide_sign(a.f.plus(b.f, -1), S_POS | S_ZERO); }
    friend bool operator==(const Rnd &a, const Rnd &b) { return decide_sign(a.f.plus(b.f, -1), S_ZERO); }
    friend bool operator!=(const Rnd &a, const Rnd &b) { return decide_sign(a.f.plus(b.f, -1), S_NEG | S_POS); }
    z3::expr expr() const { return f.expr(); }
    Q value() const { return f.eval(); }
    friend std::ostream &operator<<(std::ostream &o, const Rnd &r) { return o << r.f.key(); }
};

} // namespace symx

namespace std {
template<> class numeric_limits<symx::Rnd> {
public:
    static constexpr bool is_specialized = true;
    static symx::Rnd max() { return symx::Rnd::inf(); }
    static symx::Rnd min() { return symx::Rnd(0); }
    static symx::Rnd lowest() { return symx::Rnd(0); }
    static constexpr bool is_integer = false;
    static constexpr bool is_signed = true;
    static constexpr bool is_exact = false;
};
}
