// Independent graph oracles (no parmcb code): topology, union-find, cycle validity, GF(2) rank,
// brute-force simple-cycle enumeration.  Used by the symbolic harnesses and by the concrete replayers.
#pragma once
#include <algorithm>
#include <cstdint>
#include <functional>
#include <map>
#include <set>
#include <sstream>
#include <string>
#include <utility>
#include <vector>

namespace orc {

struct Topo {
    int n = 0;
    std::vector<std::pair<int, int>> edges;
    int m() const { return (int) edges.size(); }
};

inline Topo parse_topo(int n, const std::string &spec) {
    Topo t;
    t.n = n;
    std::string s = spec;
    if (s == "-" || s.empty()) return t;
    std::istringstream is(s);
    std::string tok;
    while (std::getline(is, tok, ',')) {
        auto p = tok.find('-');
        t.edges.emplace_back(atoi(tok.substr(0, p).c_str()), atoi(tok.substr(p + 1).c_str()));
    }
    return t;
}

inline std::vector<std::string> split(const std::string &s, char sep) {
    std::vector<std::string> r;
    if (s.empty() || s == "-") return r;
    std::istringstream is(s);
    std::string tok;
    while (std::getline(is, tok, sep)) r.push_back(tok);
    return r;
}

struct UF {
    std::vector<int> p;
    explicit UF(int n) : p(n) { for (int i = 0; i < n; i++) p[i] = i; }
    int find(int x) { while (p[x] != x) x = p[x] = p[p[x]]; return x; }
    bool unite(int a, int b) { a = find(a); b = find(b); if (a == b) return false; p[a] = b; return true; }
};

inline int components(const Topo &t) {
    UF u(t.n);
    int c = t.n;
    for (auto &e : t.edges) if (u.unite(e.first, e.second)) c--;
    return c;
}

inline int cycle_space_dim(const Topo &t) { return t.m() - t.n + components(t); }

// is the edge-index list one simple cycle of t?  (non-empty, distinct edges, every touched vertex has
// degree exactly 2, connected)
inline bool is_simple_cycle(const Topo &t, const std::vector<int> &cyc, std::string &why) {
    if (cyc.empty()) { why = "empty cycle"; return false; }
    std::set<int> seen;
    std::vector<int> deg(t.n, 0);
    for (int e : cyc) {
        if (e < 0 || e >= t.m()) { why = "edge index out of range"; return false; }
        if (!seen.insert(e).second) { why = "repeated edge"; return false; }
        if (t.edges[e].first == t.edges[e].second) { why = "self loop"; return false; }
        deg[t.edges[e].first]++;
        deg[t.edges[e].second]++;
    }
    int touched = 0;
    for (int v = 0; v < t.n; v++) {
        if (deg[v] != 0 && deg[v] != 2) { why = "vertex of degree " + std::to_string(deg[v]); return false; }
        if (deg[v]) touched++;
    }
    if (touched != (int) cyc.size()) { why = "not a single cycle (|V| != |E|)"; return false; }
    // connected?
    UF u(t.n);
    int comps = touched;
    for (int e : cyc) if (u.unite(t.edges[e].first, t.edges[e].second)) comps--;
    if (comps != 1) { why = "disconnected union of cycles"; return false; }
    return true;
}

inline uint64_t mask_of(const std::vector<int> &cyc) {
    uint64_t m = 0;
    for (int e : cyc) m ^= (uint64_t(1) << e);
    return m;
}

inline int gf2_rank(std::vector<uint64_t> rows) {
    int rank = 0;
    for (int bit = 0; bit < 64; bit++) {
        int piv = -1;
        for (size_t i = rank; i < rows.size(); i++) if (rows[i] >> bit & 1) { piv = (int) i; break; }
        if (piv < 0) continue;
        std::swap(rows[rank], rows[piv]);
        for (size_t i = 0; i < rows.size(); i++) if ((int) i != rank && (rows[i] >> bit & 1)) rows[i] ^= rows[rank];
        rank++;
    }
    return rank;
}

// all simple cycles of t as edge bitmasks (brute force DFS; small graphs only)
inline std::vector<uint64_t> all_simple_cycles(const Topo &t) {
    std::vector<std::vector<std::pair<int, int>>> adj(t.n);
    for (int i = 0; i < t.m(); i++) {
        adj[t.edges[i].first].emplace_back(t.edges[i].second, i);
        adj[t.edges[i].second].emplace_back(t.edges[i].first, i);
    }
    std::set<uint64_t> out;
    std::vector<char> onpath(t.n, 0);
    std::function<void(int, int, uint64_t)> dfs = [&](int start, int v, uint64_t mask) {
        for (auto &pr : adj[v]) {
            int w = pr.first, e = pr.second;
            if (mask >> e & 1) continue;
            if (w == start && __builtin_popcountll(mask) >= 2) { out.insert(mask | (uint64_t(1) << e)); continue; }
            if (w < start || onpath[w]) continue;
            onpath[w] = 1;
            dfs(start, w, mask | (uint64_t(1) << e));
            onpath[w] = 0;
        }
    };
    for (int s = 0; s < t.n; s++) {
        onpath[s] = 1;
        dfs(s, s, 0);
        onpath[s] = 0;
    }
    return std::vector<uint64_t>(out.begin(), out.end());
}

// all simple s-t paths as edge bitmasks
inline std::vector<uint64_t> all_simple_paths(const Topo &t, int s, int dst) {
    std::vector<std::vector<std::pair<int, int>>> adj(t.n);
    for (int i = 0; i < t.m(); i++) {
        adj[t.edges[i].first].emplace_back(t.edges[i].second, i);
        adj[t.edges[i].second].emplace_back(t.edges[i].first, i);
    }
    std::vector<uint64_t> out;
    std::vector<char> onpath(t.n, 0);
    std::function<void(int, uint64_t)> dfs = [&](int v, uint64_t mask) {
        if (v == dst) { out.push_back(mask); return; }
        for (auto &pr : adj[v]) {
            int w = pr.first, e = pr.second;
            if (onpath[w]) continue;
            onpath[w] = 1;
            dfs(w, mask | (uint64_t(1) << e));
            onpath[w] = 0;
        }
    };
    onpath[s] = 1;
    dfs(s, 0);
    return out;
}

template<class W>
W mask_weight(uint64_t mask, const std::vector<W> &w) {
    W s = W();
    for (size_t e = 0; e < w.size(); e++) if (mask >> e & 1) s = s + w[e];
    return s;
}

// brute-force minimum cycle basis weight: greedy over all simple cycles sorted by weight (matroid greedy)
template<class W>
W brute_mcb_weight(const Topo &t, const std::vector<W> &w, std::vector<uint64_t> *basis = nullptr) {
    auto cyc = all_simple_cycles(t);
    std::vector<std::pair<W, uint64_t>> c;
    for (auto m : cyc) c.emplace_back(mask_weight(m, w), m);
    std::stable_sort(c.begin(), c.end(), [](const std::pair<W, uint64_t> &a, const std::pair<W, uint64_t> &b) { return a.first < b.first; });
    std::vector<uint64_t> rows;
    W total = W();
    int dim = cycle_space_dim(t);
    for (auto &p : c) {
        if ((int) rows.size() == dim) break;
        std::vector<uint64_t> tryrows = rows;
        tryrows.push_back(p.second);
        if (gf2_rank(tryrows) == (int) tryrows.size()) {
            rows = tryrows;
            total = total + p.first;
        }
    }
    if (basis) *basis = rows;
    return total;
}

inline std::string mask_str(uint64_t m) {
    std::string s;
    for (int e = 0; e < 64; e++) if (m >> e & 1) { if (!s.empty()) s += "+"; s += std::to_string(e); }
    return s;
}

} // namespace orc
