// Real boost::mpi + real TBB replayer for the MPI entry points (run under mpiexec -n P).  Reads ONE case from argv[1]
// (key=value tokens separated by '+'), rank 0 prints the JSON result.  layout=rev makes ranks != 0 allocate their edge
// nodes in descending address order (same allocator trick as the symbolic harness).
#include <boost/graph/adjacency_list.hpp>
#include <boost/mpi.hpp>
#include <iostream>
#include <list>
#include <sstream>
#include <parmcb/parmcb.hpp>
#include <parmcb/mpi/parmcb.hpp>
#include "../symx/oracle.hpp"

typedef boost::adjacency_list<boost::vecS, boost::vecS, boost::undirectedS, boost::no_property,
        boost::property<boost::edge_weight_t, double>> Graph;
typedef boost::graph_traits<Graph>::edge_descriptor Edge;
typedef std::_List_node<Graph::EdgeContainer::value_type> EdgeNode;

int main(int argc, char **argv) {
    boost::mpi::environment env(argc, argv, boost::mpi::threading::multiple);
    boost::mpi::communicator world;
    std::map<std::string, std::string> c;
    {
        std::string s = argv[1];
        for (auto &ch : s) if (ch == '+') ch = ' ';
        std::istringstream is(s);
        std::string tok;
        while (is >> tok) { auto p = tok.find('='); c[tok.substr(0, p)] = tok.substr(p + 1); }
    }
    int n = atoi(c["n"].c_str());
    orc::Topo t = orc::parse_topo(n, c.count("edges") ? c["edges"] : "-");
    std::vector<double> w;
    for (auto &s : orc::split(c["weights"], ',')) w.push_back(atof(s.c_str()));
    int m = t.m();
    if (c["layout"] == "rev" && world.rank() != 0 && m > 0) {
        std::vector<char *> blocks;
        for (int i = 0; i < m; i++) blocks.push_back((char *) ::operator new(sizeof(EdgeNode)));
        std::sort(blocks.begin(), blocks.end());
        for (int k = m - 1; k >= 0; k--) ::operator delete(blocks[m - 1 - k]);
    }
    Graph g;
    for (int v = 0; v < n; v++) boost::add_vertex(g);
    std::vector<Edge> eidx(m);
    auto wm = boost::get(boost::edge_weight, g);
    for (int i = 0; i < m; i++) { eidx[i] = boost::add_edge(t.edges[i].first, t.edges[i].second, g).first; wm[eidx[i]] = w[i]; }
    std::list<std::list<Edge>> cycles;
    double ret = 0;
    std::string algo = c["algo"];
    auto out = std::back_inserter(cycles);
    if (algo == "signed_mpi") ret = parmcb::mcb_sva_signed_mpi(g, wm, out, world);
    else if (algo == "fvs_mpi") ret = parmcb::mcb_sva_fvs_trees_mpi(g, wm, out, world);
    else if (algo == "fvs_tbb_mpi") ret = parmcb::mcb_sva_fvs_trees_tbb_mpi(g, wm, out, world);
    else if (algo == "iso_mpi") ret = parmcb::mcb_sva_iso_trees_mpi(g, wm, out, world);
    else if (algo == "iso_tbb_mpi") ret = parmcb::mcb_sva_iso_trees_tbb_mpi(g, wm, out, world);
    int others = world.rank() != 0 ? (int) cycles.size() : 0, others_total = 0;
    boost::mpi::reduce(world, others, others_total, std::plus<int>(), 0);
    if (world.rank() == 0) {
        std::vector<uint64_t> rows;
        bool all_simple = true;
        double sum = 0;
        for (auto &cy : cycles) {
            std::vector<int> ix;
            for (auto &e : cy) for (int i = 0; i < m; i++) if (eidx[i] == e) ix.push_back(i);
            std::string why;
            if (ix.size() != cy.size() || !orc::is_simple_cycle(t, ix, why)) all_simple = false;
            rows.push_back(orc::mask_of(ix));
            for (int e : ix) sum += w[e];
        }
        std::cout.precision(17);
        std::cout << "{\"algo\":\"" << algo << "\",\"P\":" << world.size() << ",\"ret\":" << ret << ",\"sum\":" << sum << ",\"opt\":" << orc::brute_mcb_weight(t, w)
                  << ",\"N\":" << cycles.size() << ",\"dim\":" << orc::cycle_space_dim(t) << ",\"rank\":" << orc::gf2_rank(rows)
                  << ",\"all_simple\":" << (all_simple ? "true" : "false") << ",\"others_emitted\":" << others_total << "}" << std::endl;
    }
    return 0;
}
