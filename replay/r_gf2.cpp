// Concrete replayer for SpVecGF2<std::size_t> histories.  Input: one script per line
//   "setc r v v v;unit t v;copy t a;move t a;plus t a b;pluseq t a;dot a b;dotset a v v;assign t a;massign t a;clear t;selfassign t;selfplus t;"
// with concrete non-negative integers for v.  Output: registers and dot results as JSON.
#include <iostream>
#include <set>
#include <sstream>
#include <string>
#include <vector>
#include <parmcb/spvecgf2.hpp>

typedef parmcb::SpVecGF2<std::size_t> Vec;

int main() {
    std::string line;
    while (std::getline(std::cin, line)) {
        if (line.empty()) continue;
        Vec reg[3];
        std::vector<int> dots;
        std::istringstream cmds(line);
        std::string cmd;
        while (std::getline(cmds, cmd, ';')) {
            std::istringstream is(cmd);
            std::string op;
            is >> op;
            if (op.empty()) continue;
            std::vector<std::size_t> args;
            std::string tok;
            while (is >> tok) if (tok[0] != '=') args.push_back(std::stoul(tok));
            if (op == "setc") { std::set<std::size_t> s(args.begin() + 1, args.end()); reg[args[0]] = Vec(s); }
            else if (op == "unit") { Vec v(args[1]); reg[args[0]] = v; }
            else if (op == "copy") { Vec v(reg[args[1]]); reg[args[0]] = v; }
            else if (op == "move") { Vec tmp(reg[args[1]]); Vec v(std::move(tmp)); reg[args[0]] = v; }
            else if (op == "plus") { Vec v = reg[args[1]] + reg[args[2]]; reg[args[0]] = v; }
            else if (op == "pluseq") { reg[args[0]] += reg[args[1]]; }
            else if (op == "dot") { dots.push_back(reg[args[0]] * reg[args[1]]); }
            else if (op == "dotset") { std::set<std::size_t> s(args.begin() + 1, args.end()); dots.push_back(reg[args[0]] * s); }
            else if (op == "assign") { reg[args[0]] = reg[args[1]]; }
            else if (op == "massign") { Vec tmp(reg[args[1]]); reg[args[0]] = std::move(tmp); }
            else if (op == "clear") { reg[args[0]].clear(); }
            else if (op == "selfassign") { Vec &self = reg[args[0]]; reg[args[0]] = self; }
            else if (op == "selfplus") { reg[args[0]] += reg[args[0]]; }
            else if (op == "add") { reg[args[0]].add(args[1]); }
        }
        std::cout << "{\"regs\":[";
        for (int r = 0; r < 3; r++) {
            std::cout << (r ? "," : "") << "[";
            bool first = true;
            for (auto x : reg[r]) { std::cout << (first ? "" : ",") << x; first = false; }
            std::cout << "]";
        }
        std::cout << "],\"sizes\":[" << reg[0].size() << "," << reg[1].size() << "," << reg[2].size() << "],\"dots\":[";
        for (size_t i = 0; i < dots.size(); i++) std::cout << (i ? "," : "") << dots[i];
        std::cout << "]}" << std::endl;
    }
}
