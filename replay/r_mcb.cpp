// Concrete replayer: runs the REAL entry points with the REAL value types (double / int) and real TBB,
// and evaluates the properties with independent brute-force oracles.  One case per input line
// (key=value tokens), one JSON object per output line.
//   algo=signed|fvs|iso|signed_tbb|fvs_tbb|iso_tbb|approx_signed|approx_fvs|approx_iso|approx_*_tbb
//   n= edges= weights=w0,w1,...  type=double|int  [k=]  [order=] [perm=]
#include <boost/graph/adjacency_list.hpp>
#include <boost/property_map/property_map.hpp>
#include <iostream>
#include <list>
#include <sstream>

#include <parmcb/parmcb.hpp>
#include "../symx/oracle.hpp"

typedef std::map<std::string, std::string> Case;
static Case parse_case(const std::string &line) {
    Case c;
    std::istringstream is(line);
    std::string tok;
    while (is >> tok) {
        auto p = tok.find('=');
        if (p == std::string::npos) c[tok] = "1"; else c[tok.substr(0, p)] = tok.substr(p + 1);
    }
    return c;
}

template<class W> static std::string wstr(W w) { std::ostringstream o; o.precision(17); o << w; return o.str(); }

template<class W>
static void run(const Case &c) {
    typedef boost::adjacency_list<boost::vecS, boost::vecS, boost::undirectedS, boost::no_property,
            boost::property<boost::edge_weight_t, W>> Graph;
    typedef typename boost::graph_traits<Graph>::edge_descriptor Edge;
    int n = atoi(c.at("n").c_str());
    orc::Topo t = orc::parse_topo(n, c.count("edges") ? c.at("edges") : "-");
    std::vector<W> w;
    for (auto &s : orc::split(c.count("weights") ? c.at("weights") : "", ',')) w.push_back((W) atof(s.c_str()));
    while ((int) w.size() < t.m()) w.push_back((W) 1);
    std::vector<int> order, perm;
    if (c.count("order")) for (auto &s : orc::split(c.at("order"), ',')) order.push_back(atoi(s.c_str()));
    if (c.count("perm")) for (auto &s : orc::split(c.at("perm"), ',')) perm.push_back(atoi(s.c_str()));
    // optional: reproduce a given relative address order of the edge property nodes (layout=<rank of edge 0>,<rank of edge 1>,...),
    // which decides the order of std::set<Edge> inside parmcb: free a sorted batch of node-sized blocks so that the allocator's
    // LIFO free list hands them out in the requested order to the insertions below
    if (c.count("layout") && t.m() > 0) {
        typedef std::_List_node<typename Graph::EdgeContainer::value_type> EdgeNode;
        std::vector<int> rank_of;                       // rank of topology edge i
        for (auto &s : orc::split(c.at("layout"), ',')) rank_of.push_back(atoi(s.c_str()));
        int m = t.m();
        if ((int) rank_of.size() == m) {
            std::vector<char *> blocks;
            for (int i = 0; i < m; i++) blocks.push_back((char *) ::operator new(sizeof(EdgeNode)));
            std::sort(blocks.begin(), blocks.end());
            for (int k = m - 1; k >= 0; k--) {
                int i = order.empty() ? k : order[k];     // k-th insertion is topology edge i
                ::operator delete(blocks[rank_of[i]]);
            }
        }
    }
    Graph g;
    for (int v = 0; v < n; v++) boost::add_vertex(g);
    std::vector<Edge> eidx(t.m());
    auto wm = boost::get(boost::edge_weight, g);
    for (int k = 0; k < t.m(); k++) {
        int i = order.empty() ? k : order[k];
        int a = t.edges[i].first, b = t.edges[i].second;
        if (!perm.empty()) { a = perm[a]; b = perm[b]; }
        Edge e = boost::add_edge(a, b, g).first;
        wm[e] = w[i];
        eidx[i] = e;
    }
    orc::Topo tl = t;
    if (!perm.empty()) for (auto &ed : tl.edges) { ed.first = perm[ed.first]; ed.second = perm[ed.second]; }
    std::string algo = c.at("algo");
    std::size_t k = c.count("k") ? (std::size_t) atol(c.at("k").c_str()) : 1;
    std::list<std::list<Edge>> cycles;
    W ret = W();
    std::string exc;
    try {
        auto out = std::back_inserter(cycles);
        if (algo == "signed") ret = parmcb::mcb_sva_signed(g, wm, out);
        else if (algo == "fvs") ret = parmcb::mcb_sva_fvs_trees(g, wm, out);
        else if (algo == "iso") ret = parmcb::mcb_sva_iso_trees(g, wm, out);
        else if (algo == "signed_tbb") ret = parmcb::mcb_sva_signed_tbb(g, wm, out);
        else if (algo == "fvs_tbb") ret = parmcb::mcb_sva_fvs_trees_tbb(g, wm, out);
        else if (algo == "iso_tbb") ret = parmcb::mcb_sva_iso_trees_tbb(g, wm, out);
        else if (algo == "approx_signed") ret = parmcb::approx_mcb_sva_signed(g, wm, k, out);
        else if (algo == "approx_fvs") ret = parmcb::approx_mcb_sva_fvs_trees(g, wm, k, out);
        else if (algo == "approx_iso") ret = parmcb::approx_mcb_sva_iso_trees(g, wm, k, out);
        else if (algo == "approx_signed_tbb") ret = parmcb::approx_mcb_sva_signed_tbb(g, wm, k, out);
        else if (algo == "approx_fvs_tbb") ret = parmcb::approx_mcb_sva_fvs_trees_tbb(g, wm, k, out);
        else if (algo == "approx_iso_tbb") ret = parmcb::approx_mcb_sva_iso_trees_tbb(g, wm, k, out);
        else { std::cout << "{\"error\":\"unknown algo\"}" << std::endl; return; }
    } catch (std::exception &ex) {
        exc = ex.what();
        if (exc.empty()) exc = "exception";
    } catch (...) {
        exc = "unknown exception";
    }
#if defined(__SANITIZE_ADDRESS__)
    // sanitized build: use every returned descriptor with the caller's property map, as a caller would
    {
        volatile double sink = 0;
        for (auto &cy : cycles) for (auto &e : cy) sink = sink + (double) boost::get(wm, e);
        (void) sink;
    }
#endif
    // map descriptors by comparison
    bool foreign = false;
    std::vector<std::vector<int>> cyc;
    for (auto &cy : cycles) {
        std::vector<int> ix;
        for (auto &e : cy) {
            int f = -1;
            for (int i = 0; i < t.m(); i++) if (eidx[i] == e) { f = i; break; }
            if (f < 0) foreign = true; else ix.push_back(f);
        }
        cyc.push_back(ix);
    }
    int dim = orc::cycle_space_dim(tl);
    bool all_simple = true;
    std::string why;
    std::vector<uint64_t> rows;
    W sum = W();
    for (auto &cy : cyc) {
        std::string y;
        if (!orc::is_simple_cycle(tl, cy, y)) { all_simple = false; why += y + ";"; }
        rows.push_back(orc::mask_of(cy));
        for (int e : cy) sum += w[e];
    }
    int rank = orc::gf2_rank(rows);
    W opt = orc::brute_mcb_weight(tl, w);
    std::ostringstream o;
    o << "{\"algo\":\"" << algo << "\",\"type\":\"" << c.at("type") << "\",\"exception\":\"" << exc << "\",\"ret\":" << wstr(ret)
      << ",\"N\":" << cyc.size() << ",\"dim\":" << dim << ",\"foreign_edges\":" << (foreign ? "true" : "false")
      << ",\"all_simple\":" << (all_simple ? "true" : "false") << ",\"why\":\"" << why << "\",\"rank\":" << rank
      << ",\"sum\":" << wstr(sum) << ",\"opt\":" << wstr(opt) << ",\"cycles\":[";
    for (size_t i = 0; i < cyc.size(); i++) {
        o << (i ? "," : "") << "[";
        for (size_t j = 0; j < cyc[i].size(); j++) o << (j ? "," : "") << cyc[i][j];
        o << "]";
    }
    o << "]}";
    std::cout << o.str() << std::endl;
}

int main() {
    std::string line;
    while (std::getline(std::cin, line)) {
        if (line.empty() || line[0] == '#') continue;
        Case c = parse_case(line);
        if (!c.count("type")) c["type"] = "double";
        if (c["type"] == "int") run<int>(c); else run<double>(c);
    }
    return 0;
}
