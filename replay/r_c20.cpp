// Concrete replay for C20 with the real libtbb: prints active_value after each set_global_tbb_concurrency(n).
// input line: space separated n values
#include <iostream>
#include <sstream>
#include <parmcb/util.hpp>
int main() {
    std::string line;
    while (std::getline(std::cin, line)) {
        std::istringstream is(line);
        std::size_t n;
        std::cout << "{\"default\":" << tbb::global_control::active_value(tbb::global_control::max_allowed_parallelism) << ",\"steps\":[";
        bool first = true;
        while (is >> n) {
            parmcb::set_global_tbb_concurrency(n);
            std::cout << (first ? "" : ",") << "[" << n << "," << tbb::global_control::active_value(tbb::global_control::max_allowed_parallelism) << "]";
            first = false;
        }
        std::cout << "]}" << std::endl;
    }
}
