// Concrete replayer for fp<T>, primes<T>, SpVecFP<P> with REAL integer types (int, long, boost cpp_int).
//   what=gcd type= a= b=        what=inv type= a= p=        what=prime type= p=
//   what=fpvec type= p= script="term r idx c;...;plus|scale s|dot|pluseq|scaleeq s|assign"
#include <cassert>
#include <cmath>
#include <iostream>
#include <map>
#include <sstream>
#include <stdexcept>
#include <vector>
#include <boost/multiprecision/cpp_int.hpp>
#include <boost/tuple/tuple.hpp>
#include <parmcb/config.hpp>
#include <parmcb/fp.hpp>
#include <parmcb/spvecfp.hpp>

typedef std::map<std::string, std::string> Case;
static Case parse_case(const std::string &line) {
    Case c;
    std::istringstream is(line);
    std::string tok;
    while (is >> tok) {
        auto p = tok.find('=');
        if (p == std::string::npos) c[tok] = "1"; else c[tok.substr(0, p)] = tok.substr(p + 1);
    }
    return c;
}

template<class T> T conv(const std::string &s) { return T(boost::multiprecision::cpp_int(s)); }
template<> int conv<int>(const std::string &s) { return (int) std::stol(s); }
template<> long conv<long>(const std::string &s) { return std::stol(s); }

template<class T>
static void run(const Case &c) {
    std::string what = c.at("what");
    std::ostringstream o;
    o << "{\"what\":\"" << what << "\",\"type\":\"" << c.at("type") << "\"";
    if (what == "gcd") {
        T a = conv<T>(c.at("a")), b = conv<T>(c.at("b")), x = 0, y = 0;
        T g = parmcb::fp<T>::ext_gcd(a, b, x, y);
        o << ",\"g\":\"" << g << "\",\"x\":\"" << x << "\",\"y\":\"" << y << "\"";
    } else if (what == "inv") {
        T a = conv<T>(c.at("a")), p = conv<T>(c.at("p"));
        bool threw = false;
        T r = 0;
        try { r = parmcb::fp<T>::get_mult_inverse(a, p); } catch (...) { threw = true; }
        o << ",\"threw\":" << (threw ? "true" : "false") << ",\"ret\":\"" << r << "\"";
    } else if (what == "prime") {
        T p = conv<T>(c.at("p"));
        o << ",\"result\":" << (parmcb::primes<T>::is_prime(p) ? "true" : "false");
    } else if (what == "fpvec") {
        T p = conv<T>(c.at("p"));
        typedef parmcb::SpVecFP<T> FV;
        FV reg[2] = {FV(p), FV(p)};
        FV res(p);
        std::string script = c.at("script");
        for (auto &ch : script) if (ch == '_') ch = ' ';
        std::istringstream cmds(script);
        std::string cmd, dot = "";
        bool have_res = false;
        while (std::getline(cmds, cmd, ';')) {
            std::istringstream is(cmd);
            std::string op;
            is >> op;
            if (op == "term") { int r; std::size_t idx; std::string cs; is >> r >> idx >> cs; FV u(p); u = idx; reg[r] = reg[r] + u * conv<T>(cs); }
            else if (op == "plus") { res = reg[0] + reg[1]; have_res = true; }
            else if (op == "scale") { std::string s; is >> s; res = reg[0] * conv<T>(s); have_res = true; }
            else if (op == "dot") { T d = reg[0] * reg[1]; std::ostringstream t; t << d; dot = t.str(); }
            else if (op == "pluseq") { FV t(reg[0]); t += reg[1]; res = t; have_res = true; }
            else if (op == "scaleeq") { std::string s; is >> s; FV t(reg[0]); t *= conv<T>(s); res = t; have_res = true; }
            else if (op == "assign") { FV t(p); t = reg[0]; res = t; have_res = true; }
        }
        auto dump = [&](const char *nm, const FV &v) {
            o << ",\"" << nm << "\":[";
            bool first = true;
            for (auto it = v.begin(); it != v.end(); ++it) { o << (first ? "" : ",") << "[" << boost::get<0>(*it) << ",\"" << boost::get<1>(*it) << "\"]"; first = false; }
            o << "]";
        };
        dump("a", reg[0]);
        dump("b", reg[1]);
        if (have_res) dump("res", res);
        if (!dot.empty()) o << ",\"dot\":\"" << dot << "\"";
    }
    o << "}";
    std::cout << o.str() << std::endl;
}

int main() {
    std::string line;
    while (std::getline(std::cin, line)) {
        if (line.empty() || line[0] == '#') continue;
        Case c = parse_case(line);
        std::string t = c.count("type") ? c["type"] : "int";
        c["type"] = t;
        if (t == "int") run<int>(c);
        else if (t == "long") run<long>(c);
        else run<boost::multiprecision::cpp_int>(c);
    }
}
