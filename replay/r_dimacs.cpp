// Concrete replayer for the DIMACS reader: each input line is the file content with "\n" written as the two characters
// backslash-n (so that a missing final newline can be expressed).  Prints the graph the REAL reader builds.
#include <boost/graph/adjacency_list.hpp>
#include <cstdio>
#include <iostream>
#include <sstream>
#include <unistd.h>
#include <parmcb/util.hpp>
typedef boost::adjacency_list<boost::vecS, boost::vecS, boost::undirectedS, boost::no_property, boost::property<boost::edge_weight_t, double>> Graph;
int main() {
    std::string line;
    while (std::getline(std::cin, line)) {
        std::string content;
        for (size_t i = 0; i < line.size(); i++) {
            if (line[i] == '\\' && i + 1 < line.size() && line[i + 1] == 'n') { content += '\n'; i++; }
            else content += line[i];
        }
        char name[] = "/dev/shm/r_dimacs_XXXXXX";
        int fd = mkstemp(name);
        if (fd < 0) { std::cout << "{\"error\":\"mkstemp\"}" << std::endl; continue; }
        if (write(fd, content.data(), content.size()) < 0) {}
        close(fd);
        FILE *fp = fopen(name, "r");
        Graph g;
        bool threw = false;
        try { parmcb::read_dimacs_from_file(fp, g); } catch (std::system_error &) { threw = true; }
        fclose(fp);
        unlink(name);
        auto wm = boost::get(boost::edge_weight, g);
        std::cout.precision(17);
        std::cout << "{\"threw\":" << (threw ? "true" : "false") << ",\"n\":" << boost::num_vertices(g) << ",\"edges\":[";
        bool first = true;
        for (auto e : boost::make_iterator_range(boost::edges(g))) {
            std::cout << (first ? "" : ",") << "[" << boost::source(e, g) << "," << boost::target(e, g) << "," << wm[e] << "]";
            first = false;
        }
        std::cout << "]}" << std::endl;
    }
}
