// Concrete replayer for the component-level properties (real value types, real build):
//   what=sptree   n= edges= weights=            → distance matrix from SPTree + brute-force distances + consistency flags
//   what=coll     n= edges= weights=            → candidate counts of the three collections, soundness, greedy-reaches-optimum
//   what=fvs      n= edges=                     → greedy_fvs output + acyclicity of the rest
//   what=findex   n= edges= [order=]            → ForestIndex checks
#include <boost/graph/adjacency_list.hpp>
#include <boost/property_map/property_map.hpp>
#include <iostream>
#include <list>
#include <sstream>

#include <parmcb/parmcb.hpp>
#include <parmcb/detail/cycles.hpp>
#include <parmcb/detail/fvs.hpp>
#include <parmcb/detail/approx_spanner.hpp>
#include <parmcb/parmcb_approx_sva_signed.hpp>
#include "../symx/oracle.hpp"

typedef std::map<std::string, std::string> Case;
static Case parse_case(const std::string &line) {
    Case c;
    std::istringstream is(line);
    std::string tok;
    while (is >> tok) {
        auto p = tok.find('=');
        if (p == std::string::npos) c[tok] = "1"; else c[tok.substr(0, p)] = tok.substr(p + 1);
    }
    return c;
}

typedef double W;
typedef boost::adjacency_list<boost::vecS, boost::vecS, boost::undirectedS, boost::no_property,
        boost::property<boost::edge_weight_t, W>> Graph;
typedef boost::graph_traits<Graph>::edge_descriptor Edge;
typedef boost::property_map<Graph, boost::edge_weight_t>::type WeightMap;
typedef parmcb::SPTree<Graph, WeightMap> Tree;
typedef parmcb::SPNode<Graph, WeightMap> Node;
typedef parmcb::CandidateCycle<Graph, WeightMap> Cand;

static std::string wstr(W w) { std::ostringstream o; o.precision(17); o << w; return o.str(); }

static int edge_index(const std::vector<Edge> &eidx, const Edge &e) {
    for (size_t i = 0; i < eidx.size(); i++) if (eidx[i] == e) return (int) i;
    return -1;
}

static bool unfold(const Tree &tr, const Cand &c, const orc::Topo &t, const std::vector<Edge> &eidx, uint64_t &mask) {
    int ei = edge_index(eidx, c.edge());
    if (ei < 0) return false;
    int root = (int) tr.source();
    auto walk = [&](int v, std::vector<int> &verts, std::vector<int> &edges) -> bool {
        std::set<int> seen;
        int cur = v;
        while (true) {
            if (!seen.insert(cur).second) return false;
            verts.push_back(cur);
            std::shared_ptr<Node> nd = tr.node(cur);
            if (!nd) return false;
            if (!nd->has_pred()) break;
            int pe = edge_index(eidx, nd->pred());
            if (pe < 0) return false;
            edges.push_back(pe);
            int a = t.edges[pe].first, b = t.edges[pe].second;
            cur = (a == cur) ? b : a;
        }
        return cur == root;
    };
    std::vector<int> v1, e1, v2, e2;
    if (!walk(t.edges[ei].first, v1, e1) || !walk(t.edges[ei].second, v2, e2)) return false;
    std::set<int> s1(v1.begin(), v1.end());
    int common = 0;
    for (int v : v2) if (s1.count(v)) common++;
    if (common != 1) return false;
    std::vector<int> cyc = e1;
    cyc.insert(cyc.end(), e2.begin(), e2.end());
    cyc.push_back(ei);
    std::string why;
    if (!orc::is_simple_cycle(t, cyc, why)) return false;
    mask = orc::mask_of(cyc);
    return true;
}

template<class Builder>
static void coll_one(const char *name, const Graph &g, WeightMap wm, const orc::Topo &t, const std::vector<Edge> &eidx,
        const std::vector<W> &w, std::ostringstream &o, std::set<uint64_t> &masks) {
    std::vector<Tree> trees;
    std::vector<Cand> cands;
    Builder b;
    b(g, wm, trees, cands);
    bool sound = true, weights = true;
    for (auto &c : cands) {
        uint64_t m;
        if (c.tree() >= trees.size() || !unfold(trees[c.tree()], c, t, eidx, m)) { sound = false; continue; }
        masks.insert(m);
        if (orc::mask_weight(m, w) != c.weight()) weights = false;
    }
    // greedy by weight subject to independence
    std::vector<std::pair<W, uint64_t>> cs;
    for (auto m : masks) cs.emplace_back(orc::mask_weight(m, w), m);
    std::sort(cs.begin(), cs.end());
    std::vector<uint64_t> rows;
    W total = 0;
    for (auto &p : cs) {
        std::vector<uint64_t> tr = rows;
        tr.push_back(p.second);
        if (orc::gf2_rank(tr) == (int) tr.size()) { rows = tr; total += p.first; }
    }
    o << ",\"n_" << name << "\":" << cands.size() << ",\"sound_" << name << "\":" << (sound ? "true" : "false")
      << ",\"weights_" << name << "\":" << (weights ? "true" : "false") << ",\"greedy_dim_" << name << "\":" << rows.size()
      << ",\"greedy_weight_" << name << "\":" << wstr(total);
}

static void run(const Case &c) {
    int n = atoi(c.at("n").c_str());
    orc::Topo t = orc::parse_topo(n, c.count("edges") ? c.at("edges") : "-");
    std::vector<W> w;
    for (auto &s : orc::split(c.count("weights") ? c.at("weights") : "", ',')) w.push_back((W) atof(s.c_str()));
    while ((int) w.size() < t.m()) w.push_back((W) 1);
    std::vector<int> order;
    if (c.count("order")) for (auto &s : orc::split(c.at("order"), ',')) order.push_back(atoi(s.c_str()));
    Graph g;
    for (int v = 0; v < n; v++) boost::add_vertex(g);
    std::vector<Edge> eidx(t.m());
    auto wm = boost::get(boost::edge_weight, g);
    for (int k = 0; k < t.m(); k++) {
        int i = order.empty() ? k : order[k];
        Edge e = boost::add_edge(t.edges[i].first, t.edges[i].second, g).first;
        wm[e] = w[i];
        eidx[i] = e;
    }
    std::string what = c.at("what");
    std::ostringstream o;
    o << "{\"what\":\"" << what << "\"";
    if (what == "sptree") {
        auto index_map = boost::get(boost::vertex_index, g);
        std::vector<Tree> trees;
        trees.reserve(n);
        for (int s = 0; s < n; s++) trees.emplace_back(s, g, index_map, wm, s);
        o << ",\"dist\":[";
        bool exact = true;
        for (int s = 0; s < n; s++) {
            o << (s ? "," : "") << "[";
            for (int v = 0; v < n; v++) {
                auto nd = trees[s].node(v);
                o << (v ? "," : "") << "\"" << (nd ? wstr(nd->weight()) : std::string("-")) << "\"";
                if (nd && v != s) {
                    W best = -1;
                    for (auto pm : orc::all_simple_paths(t, s, v)) { W x = orc::mask_weight(pm, w); if (best < 0 || x < best) best = x; }
                    if (best != nd->weight()) exact = false;
                }
            }
            o << "]";
        }
        o << "],\"exact\":" << (exact ? "true" : "false");
        // tree shape, first-vertex labels and cross-tree consistency (independent re-derivation from pred edges)
        std::vector<std::vector<std::vector<int>>> PV(n, std::vector<std::vector<int>>(n));
        bool tree_ok = true, first_ok = true;
        for (int s = 0; s < n; s++) for (int v = 0; v < n; v++) {
            auto nd = trees[s].node(v);
            if (!nd) continue;
            std::vector<int> verts;
            std::set<int> seen;
            int cur = v;
            bool ok = true;
            while (true) {
                if (!seen.insert(cur).second) { ok = false; break; }
                verts.push_back(cur);
                auto c = trees[s].node(cur);
                if (!c) { ok = false; break; }
                if (!c->has_pred()) break;
                int pe = edge_index(eidx, c->pred());
                if (pe < 0) { ok = false; break; }
                int a = t.edges[pe].first, b = t.edges[pe].second;
                if (a != cur && b != cur) { ok = false; break; }
                cur = (a == cur) ? b : a;
            }
            if (!ok || cur != s) { tree_ok = false; continue; }
            std::reverse(verts.begin(), verts.end());
            PV[s][v] = verts;
            int exp_first = (v == s) ? s : verts[1];
            if ((int) trees[s].first(v) != exp_first) first_ok = false;
        }
        bool rev_ok = true, sub_ok = true;
        for (int u = 0; u < n; u++) for (int v = 0; v < n; v++) {
            if (u == v || PV[u][v].empty()) continue;
            std::vector<int> r = PV[v][u];
            std::reverse(r.begin(), r.end());
            if (r != PV[u][v]) rev_ok = false;
            const auto &P = PV[u][v];
            for (size_t a = 0; a < P.size(); a++) for (size_t b = a + 1; b < P.size(); b++) {
                std::vector<int> sub(P.begin() + a, P.begin() + b + 1);
                if (sub != PV[P[a]][P[b]]) sub_ok = false;
            }
        }
        o << ",\"tree_ok\":" << (tree_ok ? "true" : "false") << ",\"first_ok\":" << (first_ok ? "true" : "false")
          << ",\"rev_ok\":" << (rev_ok ? "true" : "false") << ",\"sub_ok\":" << (sub_ok ? "true" : "false");
    } else if (what == "coll") {
        std::set<uint64_t> mh, mf, mi;
        coll_one<parmcb::detail::HortonCyclesBuilder<Graph, WeightMap>>("horton", g, wm, t, eidx, w, o, mh);
        coll_one<parmcb::detail::FVSCyclesBuilder<Graph, WeightMap>>("fvs", g, wm, t, eidx, w, o, mf);
        coll_one<parmcb::detail::ISOCyclesBuilder<Graph, WeightMap>>("iso", g, wm, t, eidx, w, o, mi);
        bool nf = true, ni = true;
        for (auto m : mf) if (!mh.count(m)) nf = false;
        for (auto m : mi) if (!mh.count(m)) ni = false;
        o << ",\"nested_fvs\":" << (nf ? "true" : "false") << ",\"nested_iso\":" << (ni ? "true" : "false")
          << ",\"opt\":" << wstr(orc::brute_mcb_weight(t, w)) << ",\"dim\":" << orc::cycle_space_dim(t);
    } else if (what == "fvs") {
        std::vector<std::size_t> f;
        parmcb::greedy_fvs(g, std::back_inserter(f));
        std::set<std::size_t> fs(f.begin(), f.end());
        bool ok = fs.size() == f.size();
        for (auto v : f) if (v >= (std::size_t) n) ok = false;
        orc::UF uf(n);
        bool acyclic = true;
        for (auto &e : t.edges) if (!fs.count(e.first) && !fs.count(e.second)) if (!uf.unite(e.first, e.second)) acyclic = false;
        o << ",\"size\":" << f.size() << ",\"distinct_in_range\":" << (ok ? "true" : "false") << ",\"acyclic\":" << (acyclic ? "true" : "false")
          << ",\"fvs\":[";
        for (size_t i = 0; i < f.size(); i++) o << (i ? "," : "") << f[i];
        o << "]";
    } else if (what == "spanner") {
#ifdef PARMCB_VERIF
        std::size_t k = (std::size_t) atol(c.at("k").c_str());
        typedef std::back_insert_iterator<std::list<std::list<Edge>>> Out;
        typedef parmcb::detail::mcb_sva_signed<Graph, WeightMap, Out> Exact;
        parmcb::detail::BaseApproxSpannerAlgorithm<Graph, WeightMap, Exact, false> algo(g, wm, boost::get(boost::vertex_index, g), k);
        const Graph &sp = algo.verif_spanner();
        const auto &emap = algo.verif_edge_spanner_to_g();
        auto spw = boost::get(boost::edge_weight, sp);
        std::vector<int> retained;
        bool weights_ok = true, endpoints_ok = true;
        for (auto se : boost::make_iterator_range(boost::edges(sp))) {
            auto it = emap.find(se);
            int i = it == emap.end() ? -1 : edge_index(eidx, it->second);
            if (i < 0) { endpoints_ok = false; continue; }
            retained.push_back(i);
            if (boost::get(spw, se) != w[i]) weights_ok = false;
            int a = (int) boost::source(se, sp), b = (int) boost::target(se, sp);
            if (!((a == t.edges[i].first && b == t.edges[i].second) || (a == t.edges[i].second && b == t.edges[i].first))) endpoints_ok = false;
        }
        std::sort(retained.begin(), retained.end());
        o << ",\"retained\":[";
        for (size_t j = 0; j < retained.size(); j++) o << (j ? "," : "") << retained[j];
        o << "],\"dropped\":" << algo.verif_non_spanner_edges().size() << ",\"weights_ok\":" << (weights_ok ? "true" : "false")
          << ",\"endpoints_ok\":" << (endpoints_ok ? "true" : "false");
        // girth and stretch witnesses, independently
        orc::Topo rt;
        rt.n = n;
        for (int i : retained) rt.edges.push_back(t.edges[i]);
        bool girth_ok = true;
        for (auto cm : orc::all_simple_cycles(rt)) if ((std::size_t) __builtin_popcountll(cm) <= 2 * k) girth_ok = false;
        bool stretch_ok = true;
        std::set<int> rset(retained.begin(), retained.end());
        for (int i = 0; i < t.m(); i++) if (!rset.count(i)) {
            bool found = false;
            for (auto pm : orc::all_simple_paths(rt, t.edges[i].first, t.edges[i].second)) {
                if ((std::size_t) __builtin_popcountll(pm) > 2 * k - 1) continue;
                bool light = true;
                for (int j = 0; j < rt.m(); j++) if ((pm >> j & 1) && w[retained[j]] > w[i]) light = false;
                if (light) found = true;
            }
            if (!found) stretch_ok = false;
        }
        o << ",\"girth_ok\":" << (girth_ok ? "true" : "false") << ",\"stretch_ok\":" << (stretch_ok ? "true" : "false")
          << ",\"partition_ok\":" << ((int) retained.size() + (int) algo.verif_non_spanner_edges().size() == t.m() ? "true" : "false");
#else
        o << ",\"error\":\"built without PARMCB_VERIF\"";
#endif
    } else if (what == "valid") {
        o << ",\"has_loops\":" << (parmcb::has_loops(g) ? "true" : "false") << ",\"has_multiple_edges\":" << (parmcb::has_multiple_edges(g) ? "true" : "false")
          << ",\"has_non_positive_weights\":" << (parmcb::has_non_positive_weights(g, wm) ? "true" : "false");
    } else if (what == "findex") {
        parmcb::ForestIndex<Graph> fi(g);
        int m = t.m();
        bool bij = true;
        std::set<std::size_t> seen;
        for (int i = 0; i < m; i++) {
            std::size_t ix = fi(eidx[i]);
            if (ix >= (std::size_t) m || !seen.insert(ix).second || !(fi(ix) == eidx[i])) bij = false;
        }
        orc::UF uf(n);
        bool forest_ok = true, flag_ok = true;
        int joined = 0;
        for (int i = 0; i < m; i++) {
            bool on = fi.is_on_forest(eidx[i]);
            if (on != (fi(eidx[i]) >= fi.cycle_space_dimension())) flag_ok = false;
            if (on) { if (!uf.unite(t.edges[i].first, t.edges[i].second)) forest_ok = false; else joined++; }
        }
        int comps = orc::components(t);
        if (n - joined != comps) forest_ok = false;
        bool copies_ok = true;
        {
            parmcb::ForestIndex<Graph> copy(fi);
            Graph other_g;
            for (int v = 0; v < 7; v++) boost::add_vertex(other_g);
            boost::add_edge(0, 1, other_g); boost::add_edge(1, 2, other_g); boost::add_edge(0, 2, other_g);
            boost::add_edge(3, 4, other_g); boost::add_edge(4, 5, other_g); boost::add_edge(3, 5, other_g);
            parmcb::ForestIndex<Graph> assigned(other_g);
            assigned = fi;
            for (auto *x : {&copy, &assigned}) {
                if (x->weak_connected_components() != fi.weak_connected_components() || x->cycle_space_dimension() != fi.cycle_space_dimension()) copies_ok = false;
                for (int i = 0; i < m && copies_ok; i++)
                    if ((*x)(eidx[i]) != fi(eidx[i]) || x->is_on_forest(eidx[i]) != fi.is_on_forest(eidx[i])) copies_ok = false;
            }
        }
        o << ",\"copies_ok\":" << (copies_ok ? "true" : "false");
        o << ",\"bijection\":" << (bij ? "true" : "false") << ",\"components\":" << fi.weak_connected_components() << ",\"exp_components\":" << comps
          << ",\"dim\":" << fi.cycle_space_dimension() << ",\"exp_dim\":" << orc::cycle_space_dim(t)
          << ",\"forest_ok\":" << (forest_ok ? "true" : "false") << ",\"flag_ok\":" << (flag_ok ? "true" : "false");
    }
    o << "}";
    std::cout << o.str() << std::endl;
}

int main() {
    std::string line;
    while (std::getline(std::cin, line)) {
        if (line.empty() || line[0] == '#') continue;
        run(parse_case(line));
    }
    return 0;
}
